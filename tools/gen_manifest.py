#!/usr/bin/env python3
"""Regenerate MANIFEST.json from the table below (kept valid at all times)."""
import json, os, sys
V = os.path.dirname(os.path.dirname(os.path.abspath(__file__)))
props = [json.loads(l) for l in open(os.path.join(V, "properties.jsonl"))]

B_NOTE = ("Trusted: JAX tracer/AD/vmap as the semantics of the code; real arithmetic instead of floats; networks/user "
          "functions C^4 with commuting mixed partials; the Engine B interpreter's arithmetic-primitive semantics and "
          "ring normaliser (cross-checked numerically against native JAX execution on every obligation). "
          "Proofs are complete per shape configuration; shape configurations are enumerated (bounds in evidence.coverage.bounded_in).")

CLAIMED = {
 "C01": dict(
   text="Every obligation 'operator(real code, traced from /repo) == textbook operator' is discharged for all points, "
        "times, network parameters and all C^4 fields (uninterpreted function), for d=1..4, with/without time: "
        "a failed obligation names the operator and configuration and is replayed natively.",
   technique="contract-based deductive verification: self-generated VCs from the jaxpr of the real functions over "
             "uninterpreted smooth functions, discharged by ring normalisation + z3 (cvc5 fallback)",
   design_ref="DESIGN.md §5 C01", note=B_NOTE),
 "C02": dict(
   text="For each built-in equation the obligation 'evaluate(real code) == documented differential expression' is "
        "discharged for all points, all equation parameters, all Tmax and all C^4 networks (PINN branches; modular "
        "obligations use the C01 operator contracts, closure obligations inline them).",
   technique="contract-based deductive verification: VCs from the jaxpr of the real evaluate/equation methods over "
             "uninterpreted networks, ring normalisation + z3",
   design_ref="DESIGN.md §5 C02", note=B_NOTE + " GLV is read in its log form (parameter roles as in DESIGN §5 C02)."),
 "C03": dict(
   text="For every subset of configured terms of LossODE / LossPDEStatio / LossPDENonStatio: total == sum of terms, "
        "unconfigured terms == 0, dynamic term == (1/B) sum_i sum_c w_c R_c(point_i)^2 with R an uninterpreted user "
        "residual; plus the three corollaries as relational obligations on the real code.",
   technique="contract-based deductive verification: VCs from the jaxpr of the real evaluate methods, uninterpreted "
             "residual map and network, ring normalisation + z3",
   design_ref="DESIGN.md §5 C03", note=B_NOTE + " Batch size and component count are enumerated (1..3)."),
 "C04": dict(
   text="The boundary term computed by the real code equals sum over facets (with a condition) of the mean over that "
        "facet's rows of w*|D[N](p) - f(p)|^2 with D = selected components (Dirichlet) or the derivative along the "
        "outward normal (Neumann), for 1-D/2-D, stationary/non-stationary, global and per-facet dict specs (None "
        "skipped), f returning (), (1,) or (k,), for all networks, f, border points and weights.",
   technique="contract-based deductive verification: VCs from the jaxpr of boundary_condition_apply / the four boundary "
             "functions over uninterpreted network and f, ring normalisation + z3",
   design_ref="DESIGN.md §5 C04", note=B_NOTE + " Rows per facet enumerated 1..3; facet order is the generator's (C08)."),
 "C05": dict(
   text="initial-condition (ODE at t0; PDE over the batch at t=0), normalisation (w*(L*mean_s u - 1)^2, averaged over "
        "batch times when u depends on time) and observation terms (row i with row i of every observed parameter, "
        "slice_solution then obs_slice) computed by the real code equal their definitions for all networks, tables, "
        "samples and weights.",
   technique="contract-based deductive verification: VCs from the jaxpr of the real *_apply functions and evaluate "
             "methods over uninterpreted networks/functions, ring normalisation + z3",
   design_ref="DESIGN.md §5 C05", note=B_NOTE + " Normalisation is stated for scalar-valued u; counts enumerated 1..3."),
 "C06": dict(
   text="For LossODE / LossPDEStatio / LossPDENonStatio with every term configured, one VC per parameter group with "
        "*symbolic* Boolean masks proves  d total/d g == sum_T mask[T][g] * d spec_T/d g  (so every unselected "
        "(term, group) pair contributes exactly zero, for all 2^(terms x groups) assignments at once) and that loss "
        "values do not depend on the masks; _set_derivatives on ParamsDict likewise. Mask construction from strings / "
        "defaults is pure Python over concrete structures and is checked exhaustively for key sets of size 0..3 "
        "(labelled bounded, not counted as proved).",
   technique="contract-based deductive verification: VCs from the jaxpr of jax.grad of the real evaluate with symbolic "
             "idempotent Boolean masks, ring normalisation + z3; bounded exhaustive stand-in for the mask builders",
   design_ref="DESIGN.md §5 C06", note=B_NOTE + " System-loss per-unknown terms reuse these single losses (C13)."),
 "C10": dict(
   text="PINN: u(inputs, params) == output_transform(in, squeeze(M(input_transform(in, params))), params)[output_slice] "
        "with a trailing axis always, scalar or (1,) time, bare nn_params accepted; create_PINN shared outputs are "
        "slices of one network; SPINN output == tensor grid of sum_r prod_d f_d(x_d) (time first, one slot per output); "
        "HYPERPINN == inner MLP with weights = hyper-network output split in parameter-leaf order. All for "
        "uninterpreted inner networks / transforms and symbolic inputs.",
   technique="contract-based deductive verification: VCs from the jaxpr of the real wrapper classes (built by the real "
             "constructors) over uninterpreted inner functions, ring normalisation + z3",
   design_ref="DESIGN.md §5 C10", note=B_NOTE + " Architectures enumerated (widths/outputs <= 3, d <= 3)."),
 "C11": dict(
   text="For a real SPINN around uninterpreted per-dimension embeddings, entry (i1..id) of every forward-mode result "
        "(four operators, SPINN branches of Burgers / Fisher-KPP / OU-FPE / mass conservation / Navier-Stokes, four "
        "boundary functions, initial-condition, normalisation and dynamic_loss_apply) equals the pointwise C01/C02/C04/C05 "
        "postcondition instantiated with the pointwise twin F = sum_r prod_j f_j at (x_i1..x_id), time axis first.",
   technique="contract-based deductive verification: VCs from the jaxpr of the real forward-mode code over uninterpreted "
             "embeddings; pointwise side obtained by symbolic differentiation of the twin; ring normalisation + z3",
   design_ref="DESIGN.md §5 C11", note=B_NOTE + " d <= 3, B <= 2, r <= 2, outputs <= 2 enumerated."),
 "C12": dict(
   text="With batch.param_batch_dict carrying any subset K of the equation parameters, every term of the three single "
        "losses (and the dynamic part of system losses) evaluates sample i with row i of the batched keys and the caller's "
        "value of the others — in the network input, in the residual and in the gradient routing (symbolic masks); "
        "observed parameters combine with batched ones; a heterogeneous parameter is replaced by h_k(point, u, params) "
        "for the equation only, undeclared ones pass through, other terms see the caller's values.",
   technique="contract-based deductive verification: VCs from the jaxpr of the real evaluate methods (and of jax.grad of "
             "them) over uninterpreted networks / residuals / heterogeneity maps, ring normalisation + z3",
   design_ref="DESIGN.md §5 C12", note=B_NOTE + " Terms whose points are not the collocation batch (normalisation samples, 1-D border pair) are not configured."),
 "C13": dict(
   text="SystemLossODE / SystemLossPDE: dyn term == sum_e w_e mean_i |R^e(t_i, x_i, all nets, all params)|^2 with the "
        "equation called in the documented (t, x, u_dict, params_dict) order, every other term == sum_u w^u * single-"
        "network term of u; scalar / per-key dict / None weights; 1..3 equations x 1..2 unknowns independently; "
        "one-equation one-unknown system == plain loss (relational obligation).",
   technique="contract-based deductive verification: VCs from the jaxpr of the real system-loss evaluate (objects built "
             "by the real constructors) over uninterpreted equations and networks, ring normalisation + z3",
   design_ref="DESIGN.md §5 C13", note=B_NOTE),
 "C07": dict(
   text="Four contracts on the real code of solve — initial carry (one warm-up draw, zero histories, optimizer.init or the "
        "given state), one iteration (batch from the generators, value_and_grad of the loss, optimiser update, histories "
        "written at index i only, tracked parameters after the update, generators advanced), the loop guard, and the "
        "returned tuple as a projection of the final carry — discharged for uninterpreted loss / optimiser / generators "
        "(and real optax.sgd), every i in [0, n_iter); the iteration rule then gives the reference-loop equality.",
   technique="contract-based deductive verification: the real _one_iteration / break_fun closures are captured by replacing "
             "jax.lax.while_loop with a recorder while tracing solve; VCs from their jaxprs, ring normalisation + z3",
   design_ref="DESIGN.md §5 C07", note=B_NOTE + " The Hoare while rule (induction over iterations) is trusted, not re-proved; n_iter enumerated."),
 "C18": dict(
   text="last_non_nan' == ite(isnan(params'), last_non_nan, params') on the real _gradient_step, _check_nan_in_pytree == OR "
        "of isnan over every leaf, guard stops on isnan(params), solve returns last_non_nan; invariant "
        "~isnan(last) /\\ (~isnan(params) => last = params) and the exit lemma (first NaN: loop exits, returned parameters "
        "are those held before the iteration, NaN-free) discharged by z3 over these contracts.",
   technique="contract-based deductive verification: VCs from the jaxprs of the captured solve closures + z3 lemma over the contracts",
   design_ref="DESIGN.md §5 C18", note=B_NOTE + " NaN propagation inside float arithmetic is not modelled (isnan is a predicate on params')."),
 "C19": dict(
   text="Step contract of solve with an uninterpreted validation module: invoked iff i mod call_every == 0 with the "
        "post-update parameters, criterion stored at i (carried from i-1 otherwise), early_stop' = stop, best' = params' iff "
        "improved; ValidationLoss.__call__: improved <=> v < best (strict), counter' = ite(improved, 0, counter+1), "
        "stop <=> early_stopping /\\ counter == patience, generators advanced once; counter invariant and stop lemma by z3.",
   technique="contract-based deductive verification: VCs from the jaxprs of the captured solve closures and of the real "
             "ValidationLoss.__call__ + z3 lemma over the contracts",
   design_ref="DESIGN.md §5 C19", note=B_NOTE + " i and call_every enumerated (every i < n_iter, call_every 1..3)."),
 "C20": dict(
   text="(1) frame obligations: for each of the ~90 functions in the call cone of evaluate/__call__ of the five losses and "
        "get_batch of the six generators, 'assigns nothing argument-owned' is decided on the AST of /repo (modular: callee "
        "summaries), any flagged store is replayed by deep-snapshotting the arguments around real calls; (2) mode equivalence: "
        "the symbolic value of jit(f) and of the primal of value_and_grad(f, has_aux=True) equals that of f for all parameter / "
        "batch / store values (losses incl. system losses with parameter / observation parts; the six real generators' "
        "get_batch with symbolic stores, across reshuffles); (3) native argument snapshots in the three modes (bounded, not counted).",
   technique="contract-based deductive verification: frame (assigns-nothing) obligations by a provenance analysis of the real "
             "source + jaxpr-level equality obligations between execution modes, ring normalisation + z3",
   design_ref="DESIGN.md §1.3, §5 C20", note=B_NOTE + " Frame checker assumes library functions return fresh objects; Python-level global state read at trace time is invisible."),
 "C09": dict(
   engine="pyvc",
   text="For the seven batch consumers (times x2, interior, border, observation indices, parameter samples) the real source "
        "is executed symbolically with z3 integers for n, b, the current index and the RAR counters (no bound on any size): "
        "the store is only ever replaced by itself or by store o pi, the index update is 'reshuffle iff every active point has "
        "been served', the batch is the clamped window of the new store, idx + b fits in int32; the epoch lemmas (invariant, "
        "no repeat when b | n_eff, all served before a reshuffle, reshuffle as soon as all served) are discharged by z3 over "
        "that step contract; any history of calls follows by the iteration rule.",
   technique="contract-based deductive verification: source-level VC generation (ast symbolic executor over /repo's text, "
             "symbolic sizes) discharged by z3; counter-models replayed on the real generators by a native epoch monitor",
   design_ref="DESIGN.md §1.1, §5 C09",
   note="Trusted: the Python-subset semantics and jnp/lax models of vf/pyvc.py (mathematical integers + explicit int32 "
        "obligations; XLA clamping of dynamic_slice), the assumed contract of jax.random.choice (permutation; zero-probability "
        "rows last) and jax.random.split, the iteration rule, z3. Array rank (dim 1..2) is concrete."),
 "C14": dict(
   engine="pyvc",
   text="make_cartesian_product: shape (n1*n2, d1+d2[, F]) and row i*n2+j == (b1[i], b2[j]) for all i < n1, j < n2 with n1, n2 "
        "symbolic (time-major), (i,j) -> i*n2+j a bijection onto [0, n1*n2) (so every pair exactly once); "
        "CubicMeshPDENonStatio.get_batch: interior and every facet of the border are that product with the cartesian option "
        "(and in 1-D), the row-wise pairing (t_i, x_i) otherwise; column 0 is time. All batch sizes symbolic.",
   technique="contract-based deductive verification: source-level VC generation (ast symbolic executor, arrays as index "
             "transformations, symbolic sizes) discharged by z3; callees replaced by their C09 contracts",
   design_ref="DESIGN.md §5 C14",
   note="Trusted: Python-subset semantics and jnp models (repeat/tile/concatenate/reshape) of vf/pyvc.py, z3 non-linear integer "
        "arithmetic. Dimension 1..2 (rank / column count are concrete)."),
 "C16": dict(
   engine="pyvc",
   text="The real RAR source is executed symbolically with every schedule integer, store size, candidate / selected size, step "
        "count and iteration number as z3 integers: the constructor establishes ACTIVE(0) and the period counter, init_rar keeps "
        "them, _proceed_to_rar fires iff i >= start /\\ counter == every-1 /\\ a full set fits (time and space), trigger_rar "
        "dispatches on it, a non-firing step only bumps the counter after start, a firing step yields J+1, counter 0 and ACTIVE(J+1) "
        "for time and space with their own n_start / nt_start (loop contracts proved by induction), also in 1-D; the SCHED "
        "lemmas (steps exactly at start + k*every, nothing before start, none without capacity, never again afterwards) by z3.",
   technique="contract-based deductive verification: source-level VC generation (ast symbolic executor, loop contracts as closed "
             "forms proved by induction) discharged by z3; counter-models replayed on the real trigger_rar loop",
   design_ref="DESIGN.md §5 C16",
   note="Trusted: Python-subset semantics and jnp/lax models of vf/pyvc.py, the counting lemma for count_nonzero(p == 0), assumed "
        "contracts of jax.random.uniform/split, the iteration rule, z3. Space dimension 1..2."),
 "C17": dict(
   engine="pyvc",
   text="Firing step (same symbolic execution as C16, all sizes symbolic): stores are unchanged on the active prefix [0, n_start + "
        "J*selected) and beyond the written slice (only inactive pre-allocated slots are overwritten, with time and space offsets "
        "taken from their own initial counts); the written slice holds the candidates ranked highest by squared residual "
        "(argsort tail for ODE / stationary; top max(sel_t, sel_x) space-time pairs, times from the first sel_t, space from the "
        "first sel_x, for product domains); every candidate is drawn from the generator's own domain bounds.",
   technique="contract-based deductive verification: source-level VC generation (ast symbolic executor) discharged by z3, with "
             "assumed contracts for argsort / top_k / unravel_index / uniform",
   design_ref="DESIGN.md §5 C17",
   note="Trusted: as C16 plus the assumed contracts of jnp.argsort, jax.lax.top_k, jnp.unravel_index; the per-candidate residual is "
        "an uninterpreted function of the candidate row. Reshuffles keep the active set by the assumed contract of "
        "jax.random.choice (zero-probability rows last) — not re-proved."),
 "C15": dict(
   engine="pyvc",
   text="obs_batch (n, batch size, index symbolic): one index vector m with input, value and every observed parameter of batch "
        "row r taken from table row m[r] in [0, n) (index-range invariant preserved by reshuffles), tables untouched; the "
        "constructor makes indices = arange(n), 2-D tables, rejects mismatched row counts; DataGeneratorParameter.generate_data: "
        "user table has priority in both documented shapes ((n,) reshaped, (n,1) as is), other shapes raise ValueError, other keys "
        "are sampled once from their own range; the multi-network loader returns one aligned batch per network and an empty "
        "entry for networks without observations.",
   technique="contract-based deductive verification: source-level VC generation (ast symbolic executor over the loaders' source, "
             "constructors included) discharged by z3",
   design_ref="DESIGN.md §5 C15",
   note="Trusted: Python-subset semantics and jnp / tree_util models of vf/pyvc.py; assumed contracts of jax.random.choice / split / "
        "uniform; iteration rule; z3. Column counts and key sets are concrete (1..2)."),
 "C08": dict(
   engine="pyvc",
   text="The constructors of DataGeneratorODE / CubicMeshPDEStatio / CubicMeshPDENonStatio are executed symbolically (n, nt, nb, "
        "batch sizes, box bounds of any sign all symbolic; uniform and grid methods; dim 1 and 2; with and without border) and "
        "establish WF: declared counts and shapes, every time / interior point in the closed domain, every border row on its facet "
        "(pinned coordinate == the facet's bound, free coordinate in range, facets ordered xmin, xmax, ymin, ymax), the pair of end "
        "points in 1-D; get_batch returns the declared shapes with rows in the domain / on their facets, and WF is preserved by "
        "permutations (iteration rule). The float behaviour of the grid counts is a bounded stand-in on the real constructors "
        "(labelled bounded, not counted as proved).",
   technique="contract-based deductive verification: source-level VC generation (ast symbolic executor incl. dataclass construction "
             "and __post_init__) discharged by z3; bounded native enumeration for the float-dependent grid count",
   design_ref="DESIGN.md §5 C08",
   note="Trusted: Python-subset semantics and jnp models of vf/pyvc.py (floats as reals), assumed contracts of jax.random.uniform "
        "(closed range), split and choice, the iteration rule, z3. 2-D grid sampling requires n to be a perfect square."),
}
PENDING_REASON = "check not built yet (framework under construction); will be claimed once its contracts verify"
NA = {}

checks, na = [], []
for p in props:
    pid = p["id"]
    if pid in CLAIMED:
        c = CLAIMED[pid]
        checks.append({
            "property_id": pid,
            "quick_cmd": f"./check {pid} --tier quick",
            "thorough_cmd": f"./check {pid} --tier thorough",
            "evidence_file": f"evidence/{pid}.json",
            "replay_cmd_template": f"./check {pid} --replay {{path}}",
            "engine": c.get("engine", "jxvc"),
            "level_claimed": {"category": c.get("category", "proof"), "text": c["text"], "design_ref": c["design_ref"]},
            "level_note": c["note"],
            "technique": c["technique"],
        })
    else:
        na.append({"property_id": pid, "reason": NA.get(pid, PENDING_REASON)})
m = {
 "version": 1,
 "setup_cmd": "./setup.sh",
 "hooks": {"guard": "JINNS_VERIF",
           "enable": "no hook is compiled into /repo: every check re-reads / re-traces /repo's working tree on every run "
                     "(./check exports JINNS_VERIF=1; nothing in /repo reads it)",
           "baseline_off_cmd": "cd /repo && /venv/bin/python -m pytest -ra -q -p no:cacheprovider --timeout=900 --continue-on-collection-errors",
           "source_commits": [], "add_only": True},
 "engines": [
   {"name": "jxvc", "path": "vf/", "serves_properties": sorted(k for k, v in CLAIMED.items() if v.get("engine", "jxvc") == "jxvc"),
    "kind_free_text": "Engine B: VC generator over the jaxpr of the real functions (jax.make_jaxpr), uninterpreted C^4 "
                      "functions via custom_jvp+pure_callback, polynomial normal form, z3/cvc5"},
   {"name": "pyvc", "path": "vf/pyvc/", "serves_properties": sorted(k for k, v in CLAIMED.items() if v.get("engine") == "pyvc"),
    "kind_free_text": "Engine A: source-level VC generator (ast symbolic executor with symbolic sizes) discharged by z3"},
 ],
 "checks": checks,
 "notes": "see DESIGN.md; known findings and repaired defects are listed in known_findings.txt",
 "not_applicable": na,
}
json.dump(m, open(os.path.join(V, "MANIFEST.json"), "w"), indent=1)
print("claimed:", [c["property_id"] for c in checks])
