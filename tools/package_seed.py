#!/usr/bin/env python3
"""tools/package_seed.py <seed-id> <property> <diff> <demo> <needs-text> <PID> [<PID> ...]
Packages a confirmed seeded change under /verif/seeded/<seed-id>/ : patch.diff, demo.py, meta.json (incl. which of our
checks catch it, measured by applying the patch to /repo, running the quick checks and undoing it)."""
import json, os, shutil, subprocess, sys
sid, prop, diff, demo, needs, *pids = sys.argv[1:]
V = "/verif"
d = os.path.join(V, "seeded", sid)
os.makedirs(d, exist_ok=True)
shutil.copy(diff, os.path.join(d, "patch.diff"))
shutil.copy(demo, os.path.join(d, "demo.py"))
ver = json.load(open(f"/tmp/wt/verify_{sid}.json")) if os.path.exists(f"/tmp/wt/verify_{sid}.json") else None
# PKG_WORKTREE=1: measure in a scratch worktree of /repo's HEAD (VERIF_REPO override: /repo untouched, no evidence written),
# so that several seeds can be packaged in parallel
WT = os.environ.get("PKG_WORKTREE")
env = dict(os.environ)
if WT:
    wt = f"/tmp/wt/par/pkg_{sid}"
    subprocess.run(["git", "-C", "/repo", "worktree", "remove", "--force", wt], capture_output=True)
    subprocess.run(["git", "-C", "/repo", "worktree", "add", "-q", wt, "HEAD"], check=True)
    subprocess.run(["git", "-C", wt, "apply", os.path.abspath(diff)], check=True)
    env.update(VERIF_REPO=wt, VERIF_REPLAYS=f"/tmp/wt/par/pkgreplays_{sid}", VERIF_JOBS=env.get("VERIF_JOBS", "4"))
else:
    subprocess.run(["git", "-C", "/repo", "apply", diff], check=True)
caught = {}
try:
    for pid in pids:
        r = subprocess.run([os.path.join(V, "check"), pid, "--tier", "quick"], capture_output=True, text=True, cwd=V, env=env)
        viol = [l.split("obligation=")[1].split()[0] if "obligation=" in l else l for l in r.stdout.splitlines() if l.startswith("VIOLATION")]
        nf = [l for l in r.stdout.splitlines() if l.startswith("VIOLATION") and l.rstrip().endswith("no-failing-input-found")]
        caught[pid] = {"exit": r.returncode, "violations": len(viol), "obligations": viol[:6],
                       "native_replays_confirmed": len(viol) - len(nf)}
finally:
    if WT:
        subprocess.run(["git", "-C", "/repo", "worktree", "remove", "--force", wt], capture_output=True)
        shutil.rmtree(env["VERIF_REPLAYS"], ignore_errors=True)
    else:
        subprocess.run(["git", "-C", "/repo", "checkout", "--", "."], check=True)
        for f in os.listdir(os.path.join(V, "replays")):
            if f.endswith(".json"):
                os.remove(os.path.join(V, "replays", f))
meta = {
    "id": sid, "breaks_property": prop, "source": "independent sub-agent given only the property text and a scratch worktree",
    "needs_to_manifest": needs,
    "confirmed_by_me": ver,
    "what_i_ran": ["tools/verify_seed.sh (scratch worktree of /repo HEAD, removed afterwards): demo on the clean tree, demo with the patch, "
                   "stable baseline test files with the patch",
                   ("tools/package_seed.py: scratch worktree of /repo HEAD + patch.diff; VERIF_REPO=<worktree> ./check <PID> --tier quick; worktree removed"
                    if WT else "tools/package_seed.py: git -C /repo apply patch.diff; ./check <PID> --tier quick; git -C /repo checkout -- .")],
    "detected_by": caught,
    "detected": any(v["exit"] == 1 for v in caught.values()),
}
json.dump(meta, open(os.path.join(d, "meta.json"), "w"), indent=1)
print(sid, "detected" if meta["detected"] else "MISSED", {k: (v["exit"], v["violations"]) for k, v in caught.items()})
