#!/bin/sh
# tools/try_mutant.sh <diff> <PID> [<PID> ...] : apply a seeded change to /repo, run the quick checks, undo it.
diff="$1"; shift
cd /verif
git -C /repo apply --check "$diff" || { echo "PATCH DOES NOT APPLY: $diff"; exit 9; }
git -C /repo apply "$diff"
for pid in "$@"; do
  ./check "$pid" --tier quick > /tmp/mut_$pid.log 2>&1; rc=$?
  echo "== $pid exit=$rc: $(head -1 /tmp/mut_$pid.log | cut -c1-160)"
  grep "^VIOLATION\|^UNDECIDED\|^CHECKER" /tmp/mut_$pid.log | cut -c1-260 | head -6
done
git -C /repo checkout -- .
git -C /repo status --short | head -3
rm -f /verif/replays/*.json
