#!/bin/bash
# tools/par_mutants.sh [-j N] <list-file>   each line: <patch.diff> <PID> [<PID> ...]
# Tries seeded changes in parallel, each in its own scratch worktree of /repo's HEAD (removed afterwards); /repo itself is
# not touched and no evidence is written (VERIF_REPO override).  Prints one line per (patch, PID): exit code and counts.
J=4; if [ "$1" = "-j" ]; then J=$2; shift 2; fi
LIST="$1"
mkdir -p /tmp/wt/par
run_one() {
  line="$1"; set -- $line; diff="$1"; shift
  tag=$(echo "$diff" | md5sum | cut -c1-10)
  wt=/tmp/wt/par/wt_$tag
  git -C /repo worktree remove --force "$wt" 2>/dev/null; rm -rf "$wt"
  git -C /repo worktree add -q "$wt" HEAD || { echo "$diff WORKTREE-FAILED"; return; }
  if ! git -C "$wt" apply "$diff" 2>/dev/null; then echo "$diff PATCH-DOES-NOT-APPLY"; git -C /repo worktree remove --force "$wt"; return; fi
  for pid in "$@"; do
    out=$(cd /verif && VERIF_REPO="$wt" VERIF_REPLAYS=/tmp/wt/par/replays_$tag VERIF_JOBS=4 ./check "$pid" --tier quick 2>&1); rc=$?
    echo "$diff $pid exit=$rc $(echo "$out" | head -1 | sed 's/.*obligations=/obligations=/' | cut -c1-80) nfi=$(echo "$out" | grep -c 'no-failing-input-found')"
  done
  git -C /repo worktree remove --force "$wt"; rm -rf /tmp/wt/par/replays_$tag
}
export -f run_one
git -C /repo worktree prune     # once, before the parallel part (pruning while another process adds a worktree races)
grep -v '^#' "$LIST" | grep . | xargs -P "$J" -I{} bash -c 'run_one "{}"'
