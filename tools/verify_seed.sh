#!/bin/sh
# tools/verify_seed.sh <seed-id> <diff> <demo.py> : confirm a seeded change in a scratch worktree (removed afterwards):
#   demo passes on the clean tree, fails with the change; the stable baseline tests still pass with the change.
id="$1"; diff="$2"; demo="$3"
wt=/tmp/wt/verify_$id
out=/tmp/wt/verify_$id.json
git -C /repo worktree remove --force "$wt" 2>/dev/null; rm -rf "$wt"
git -C /repo worktree add -q "$wt" HEAD || exit 9
cd "$wt"
export JAX_PLATFORMS=cpu
/venv/bin/python -W ignore "$demo" > /tmp/wt/verify_$id.clean.log 2>&1; rc_clean=$?
if git apply --check "$diff" 2>/dev/null; then applies=true; git apply "$diff"; else applies=false; fi
/venv/bin/python -W ignore "$demo" > /tmp/wt/verify_$id.mut.log 2>&1; rc_mut=$?
/venv/bin/python -m pytest -q -p no:cacheprovider --timeout=900 --junitxml=/tmp/wt/verify_$id.xml \
   tests/dataGenerator_tests tests/parameters_tests tests/utils_tests tests/solver_tests/test_NSPipeFlow_x32_eqx.py \
   tests/solver_tests/test_nan_params_catch.py tests/solver_tests/test_parameter_tracker.py tests/solver_tests/test_rar_algorithm.py \
   tests/solver_tests_spinn/test_NSPipeFlow_x32_spinn_eqx.py > /tmp/wt/verify_$id.tests.log 2>&1
python3 - "$id" "$rc_clean" "$rc_mut" "$applies" <<'PY'
import sys, json, xml.etree.ElementTree as ET
id_, rc_clean, rc_mut, applies = sys.argv[1:5]
base = json.load(open('/root/.vp/BASELINE.json'))['stable_pass']
passed = set()
try:
    for tc in ET.parse(f'/tmp/wt/verify_{id_}.xml').iter('testcase'):
        if not list(tc): passed.add(tc.get('classname') + '::' + tc.get('name'))
except Exception as e:
    pass
missing = [t for t in base if t not in passed]
res = dict(id=id_, patch_applies=(applies == 'true'), demo_exit_clean=int(rc_clean), demo_exit_with_change=int(rc_mut),
           stable_tests_passed=len(base) - len(missing), stable_tests_missing=missing,
           confirmed=(applies == 'true' and rc_clean == '0' and rc_mut == '1' and not missing))
json.dump(res, open(f'/tmp/wt/verify_{id_}.json', 'w'), indent=1)
print(json.dumps(res))
PY
cd /; git -C /repo worktree remove --force "$wt"
