#!/bin/sh
# tools/global_coverage.sh : union of the lines of /repo/jinns exercised by all quick checks; prints uncovered statements per file
cd /verif
mkdir -p /tmp/wt/lines
for p in C01 C02 C03 C04 C05 C06 C07 C08 C09 C10 C11 C12 C13 C14 C15 C16 C17 C18 C19 C20; do
  VERIF_DUMP_LINES=/tmp/wt/lines/$p.json ./check $p --tier quick > /dev/null 2>&1
done
python3 - <<'PY'
import json, glob, ast, os
cov = {}
for f in glob.glob('/tmp/wt/lines/*.json'):
    for k, v in json.load(open(f)).items():
        cov.setdefault(k, set()).update(v)
files = ['loss/_operators.py','loss/_DynamicLoss.py','loss/_DynamicLossAbstract.py','loss/_loss_utils.py','loss/_LossODE.py','loss/_LossPDE.py',
         'loss/_boundary_conditions.py','data/_DataGenerators.py','solver/_rar.py','solver/_solve.py','parameters/_params.py',
         'parameters/_derivative_keys.py','utils/_pinn.py','utils/_spinn.py','utils/_hyperpinn.py','utils/_utils.py','validation/_validation.py']
for rel in files:
    path = '/repo/jinns/' + rel
    tree = ast.parse(open(path).read())
    c = cov.get(path, set())
    un = []
    tot = 0
    for fn in ast.walk(tree):
        if isinstance(fn, ast.FunctionDef):
            for ch in ast.walk(fn):
                if isinstance(ch, ast.stmt) and ch is not fn and not isinstance(ch, (ast.FunctionDef, ast.ClassDef)) and not (isinstance(ch, ast.Expr) and isinstance(ch.value, ast.Constant)):
                    body = getattr(ch, 'body', None)
                    end = (body[0].lineno - 1) if isinstance(body, list) and body else getattr(ch, 'end_lineno', ch.lineno)
                    tot += 1
                    if not any(x in c for x in range(ch.lineno, max(ch.lineno, end) + 1)):
                        un.append(ch.lineno)
    un = sorted(set(un))
    print(f"{rel}: {tot - len(un)}/{tot} statements in function bodies exercised; uncovered: {un[:60]}")
PY
