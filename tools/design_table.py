#!/usr/bin/env python3
"""tools/design_table.py : rewrite the obligation counts (third column) of the table in DESIGN.md §11 from the committed
quick-tier evidence files (evidence/<id>.json must come from `./check <id> --tier quick`)."""
import json, re, sys
p = "/verif/DESIGN.md"
s = open(p).read()
start = s.index("## 11. Per property")          # only the as-built table of section 11 (section 5 has the plan's table)
head, s = s[:start], s[start:]
for i in range(1, 21):
    pid = f"C{i:02d}"
    ev = json.load(open(f"/verif/evidence/{pid}.json"))
    if ev.get("tier") != "quick":
        sys.exit(f"{pid}: evidence is from tier {ev.get('tier')}, run the quick tier first")
    cov = ev["coverage"]
    nb = cov.get("bounded_obligations", None)
    n = cov["obligations"]
    extra = ""
    m = re.search(r"^\| %s \| ([^|]*) \| ([^|]*) \|" % pid, s, flags=re.M)
    if not m:
        sys.exit(f"{pid}: row not found")
    old = m.group(2).strip()
    keep_b = re.search(r"\(\+\d+ bounded\)", old)
    tot_b = len([1 for k, v in cov.get("backends", {}).items() if "bounded" in k for _ in range(v)])
    new = f"{n}" + (f" (+{tot_b} bounded)" if tot_b else "")
    s = s[:m.start(2)] + " " + new + " " + s[m.end(2):]
open(p, "w").write(head + s)
print("DESIGN.md §11 counts refreshed")
