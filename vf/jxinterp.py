"""
Symbolic evaluation of a jaxpr over polynomials in jet atoms (Engine B, DESIGN §1.2).

Values are either concrete (numpy / jax arrays; executed by JAX itself) or numpy object
arrays whose elements are `vf.poly.Poly`.  Structural primitives are executed *by JAX*
on arrays of element identifiers, so data-movement semantics are JAX's; only arithmetic
primitives have hand-written semantics here.  Anything else raises `Unsupported`, which
makes the obligation undecided (never verified, never a violation).
"""
from __future__ import annotations
import numpy as np
import jax
import jax.numpy as jnp
from . import poly as P
from .poly import Poly


class Unsupported(Exception):
    pass


# ----------------------------------------------------------------------------- values

def is_sym(v):
    return isinstance(v, np.ndarray) and v.dtype == object


def obj_array(shape, fill=None):
    a = np.empty(shape, dtype=object)
    if fill is not None:
        a.fill(fill)
    return a


def to_obj(v):
    if is_sym(v):
        return v
    a = np.asarray(v)
    out = np.empty(a.shape, dtype=object)
    flat = out.reshape(-1) if out.ndim else None
    if a.ndim == 0:
        out[()] = Poly.const(a[()])
        return out
    src = a.reshape(-1)
    cache = {}
    for i in range(src.size):
        x = src[i].item()
        p = cache.get(x)
        if p is None:
            p = Poly.const(x)
            cache[x] = p
        flat[i] = p
    return out


def fix_obj(a, shape=None):
    """make sure every element of an object array is a Poly (numpy reductions may leave ints)"""
    if not isinstance(a, np.ndarray):
        b = np.empty((), dtype=object)
        b[()] = P.as_poly(a)
        a = b
    if a.dtype != object:
        return to_obj(a)
    if a.ndim == 0:
        if not isinstance(a[()], Poly):
            a = a.copy()
            a[()] = P.as_poly(a[()])
        return a
    flat = a.reshape(-1)
    for i in range(flat.size):
        if not isinstance(flat[i], Poly):
            a = a.copy()
            flat = a.reshape(-1)
            for j in range(flat.size):
                if not isinstance(flat[j], Poly):
                    flat[j] = P.as_poly(flat[j])
            break
    return a


def sym_input(name, shape, kind="real"):
    """object array of fresh input symbols name[i,j,..]"""
    out = np.empty(shape, dtype=object)
    if out.ndim == 0:
        out[()] = Poly.boolean(name) if kind == "bool" else Poly.sym(name)
        return out
    for idx in np.ndindex(*shape):
        nm = name + "[" + ",".join(map(str, idx)) + "]"
        out[idx] = Poly.boolean(nm) if kind == "bool" else Poly.sym(nm)
    return out


def _ew1(f, a):
    a = to_obj(a)
    out = np.empty(a.shape, dtype=object)
    if a.ndim == 0:
        out[()] = f(a[()])
        return out
    fo, fa = out.reshape(-1), a.reshape(-1)
    for i in range(fa.size):
        fo[i] = f(fa[i])
    return out


def _ew2(f, a, b):
    a, b = to_obj(a), to_obj(b)
    a, b = np.broadcast_arrays(a, b)
    out = np.empty(a.shape, dtype=object)
    if a.ndim == 0:
        out[()] = f(a[()], b[()])
        return out
    for idx in np.ndindex(*a.shape):
        out[idx] = f(a[idx], b[idx])
    return out


# ----------------------------------------------------------------------------- interpreter

class Interp:
    def __init__(self, while_cap=64):
        self.while_cap = while_cap
        self.nonzero = []        # side conditions: polys that were divided by
        self.nonneg = []         # polys under sqrt / log
        self.prims_seen = {}
        self.n_eqns = 0
        self.opaque_calls = 0

    # -- entry
    def eval_closed(self, closed, args):
        return self.eval_jaxpr(closed.jaxpr, closed.consts, args)

    def eval_jaxpr(self, jaxpr, consts, args):
        env = {}

        def read(v):
            if hasattr(v, "val") and not hasattr(v, "count"):     # Literal
                return v.val
            if type(v).__name__ == "Literal":
                return v.val
            return env[v]

        assert len(jaxpr.constvars) == len(consts), (len(jaxpr.constvars), len(consts))
        assert len(jaxpr.invars) == len(args), (len(jaxpr.invars), len(args))
        for var, c in zip(jaxpr.constvars, consts):
            env[var] = c
        for var, a in zip(jaxpr.invars, args):
            env[var] = a
        # liveness: an equation none of whose results reaches an output is not evaluated (values only; the single
        # effectful primitives that occur, debug prints, are no-ops here and everything feeding only them is dead)
        live = {v for v in jaxpr.outvars if not hasattr(v, "val")}
        keep = [False] * len(jaxpr.eqns)
        for k in range(len(jaxpr.eqns) - 1, -1, -1):
            eqn = jaxpr.eqns[k]
            if eqn.primitive.name in ("debug_callback", "debug_print"):
                continue
            if any((type(o).__name__ != "DropVar" and o in live) for o in eqn.outvars):
                keep[k] = True
                for v in eqn.invars:
                    if not hasattr(v, "val"):
                        live.add(v)
        for k, eqn in enumerate(jaxpr.eqns):
            if not keep[k]:
                continue
            self.n_eqns += 1
            name = eqn.primitive.name
            self.prims_seen[name] = self.prims_seen.get(name, 0) + 1
            invals = [read(v) for v in eqn.invars]
            outs = self.apply(eqn, invals)
            if not eqn.primitive.multiple_results:
                outs = [outs]
            assert len(outs) == len(eqn.outvars), (name, len(outs), len(eqn.outvars))
            for var, o in zip(eqn.outvars, outs):
                if type(var).__name__ == "DropVar":
                    continue
                shp = tuple(var.aval.shape) if hasattr(var.aval, "shape") else ()
                if is_sym(o):
                    if tuple(o.shape) != shp:
                        raise AssertionError(f"shape mismatch in {name}: got {o.shape}, aval {shp}")
                env[var] = o
        return [read(v) for v in jaxpr.outvars]

    # -- dispatch
    def apply(self, eqn, vals):
        name = eqn.primitive.name
        h = getattr(self, "p_" + name.replace("-", "_"), None)
        any_sym = any(is_sym(v) for v in vals)
        if name in HIGHER_ORDER:
            return h(eqn, vals)
        if name == "pure_callback":
            return self.p_pure_callback(eqn, vals)
        if name in ("debug_callback", "debug_print"):
            return []
        if name == "sort" and any_sym:
            return self.p_sort(eqn, vals)
        if not any_sym:
            return self.bind_concrete(eqn, vals)
        if name in STRUCTURAL:
            return self.structural(eqn, vals, STRUCTURAL[name])
        if h is None:
            if name in UNARY_ATOMS:
                return _ew1(lambda p: P.unary(name, p), vals[0])
            raise Unsupported(f"primitive '{name}' on symbolic operands")
        return h(eqn, vals)

    def bind_concrete(self, eqn, vals):
        args = [v if not isinstance(v, np.ndarray) else jnp.asarray(v) for v in vals]
        out = eqn.primitive.bind(*args, **eqn.params)
        return out

    # -- structural primitives through identifier arrays
    def structural(self, eqn, vals, data_pos):
        name = eqn.primitive.name
        if data_pos == "all":
            data_pos = list(range(len(vals)))
        elif callable(data_pos):
            data_pos = data_pos(len(vals))
        pool, args, off = [], list(vals), 0
        for i, v in enumerate(vals):
            if i in data_pos:
                o = to_obj(v)
                n = o.size
                ids = np.arange(off, off + n, dtype=np.int64).reshape(o.shape)
                pool.extend(o.reshape(-1).tolist() if o.ndim else [o[()]])
                off += n
                args[i] = jnp.asarray(ids)
            else:
                if is_sym(v):
                    raise Unsupported(f"symbolic index operand #{i} of '{name}'")
                args[i] = v if not isinstance(v, np.ndarray) else jnp.asarray(v)
        out = eqn.primitive.bind(*args, **eqn.params)
        outs = out if eqn.primitive.multiple_results else [out]
        res = []
        for o in outs:
            o = np.asarray(o)
            if o.size and (o.min() < 0 or o.max() >= off):
                raise Unsupported(f"'{name}' produced a fill value (out-of-range index)")
            r = np.empty(o.shape, dtype=object)
            if o.ndim == 0:
                r[()] = pool[int(o)]
            else:
                fr = r.reshape(-1)
                fo = o.reshape(-1)
                for k in range(fo.size):
                    fr[k] = pool[int(fo[k])]
            res.append(r)
        return res if eqn.primitive.multiple_results else res[0]

    # -- arithmetic
    def p_add(self, eqn, v):
        return fix_obj(np.add(to_obj(v[0]), to_obj(v[1])))

    p_add_any = p_add

    def p_sub(self, eqn, v):
        return fix_obj(np.subtract(to_obj(v[0]), to_obj(v[1])))

    def p_mul(self, eqn, v):
        return fix_obj(np.multiply(to_obj(v[0]), to_obj(v[1])))

    def p_neg(self, eqn, v):
        return _ew1(lambda p: -p, v[0])

    def p_div(self, eqn, v):
        dt = eqn.outvars[0].aval.dtype
        if not np.issubdtype(dt, np.floating):
            raise Unsupported("integer division on symbolic operands")

        def f(a, b):
            if not b.is_const():
                self.nonzero.append(b)
            return a / b
        return _ew2(f, v[0], v[1])

    def p_integer_pow(self, eqn, v):
        y = eqn.params["y"]

        def f(p):
            if y < 0 and not p.is_const():
                self.nonzero.append(p)
            if y % 2 == 0 and len(p.terms) == 1:
                (m, cf), = p.terms.items()          # |q|^(2k) == q^(2k)
                if len(m) == 1 and m[0][1] == 1:
                    k = P.atom_by_id(m[0][0]).key
                    if k[0] == "fn" and k[1] == "abs":
                        return (P.Poly.const(cf) * P.poly_from_key(k[2][0])) ** y
            return p ** y
        return _ew1(f, v[0])

    def p_square(self, eqn, v):
        return _ew1(lambda p: p * p, v[0])

    def p_pow(self, eqn, v):
        if is_sym(v[1]):
            raise Unsupported("pow with symbolic exponent")
        return _ew2(lambda a, b: a ** b, v[0], v[1])

    def p_sqrt(self, eqn, v):
        def f(p):
            if not p.is_const():
                self.nonneg.append(p)
            return P.sqrt(p)
        return _ew1(f, v[0])

    def p_rsqrt(self, eqn, v):
        def f(p):
            self.nonneg.append(p)
            self.nonzero.append(p)
            return P.inv(P.sqrt(p))
        return _ew1(f, v[0])

    def p_abs(self, eqn, v):
        return _ew1(lambda p: P.unary("abs", p), v[0])

    def p_sign(self, eqn, v):
        return _ew1(lambda p: P.unary("sign", p), v[0])

    def p_exp(self, eqn, v):
        return _ew1(lambda p: P.unary("exp", p), v[0])

    def p_log(self, eqn, v):
        def f(p):
            if not p.is_const():
                self.nonneg.append(p)
                self.nonzero.append(p)
            return P.unary("log", p)
        return _ew1(f, v[0])

    def p_max(self, eqn, v):
        return _ew2(P.p_max, v[0], v[1])

    def p_min(self, eqn, v):
        return _ew2(P.p_min, v[0], v[1])

    def p_clamp(self, eqn, v):
        lo, x, hi = v
        return _ew2(P.p_max, lo, _ew2(P.p_min, x, hi))

    # comparisons -> idempotent 0/1 polynomials
    def p_lt(self, eqn, v):
        return _ew2(P.b_lt, v[0], v[1])

    def p_gt(self, eqn, v):
        return _ew2(lambda a, b: P.b_lt(b, a), v[0], v[1])

    def p_le(self, eqn, v):
        return _ew2(lambda a, b: P.ONE - P.b_lt(b, a), v[0], v[1])

    def p_ge(self, eqn, v):
        return _ew2(lambda a, b: P.ONE - P.b_lt(a, b), v[0], v[1])

    def p_eq(self, eqn, v):
        if eqn.invars[0] is eqn.invars[1]:
            return _ew1(lambda p: P.ONE - P.b_isnan(p), v[0])
        return _ew2(P.b_eq, v[0], v[1])

    def p_ne(self, eqn, v):
        if eqn.invars[0] is eqn.invars[1]:
            return _ew1(P.b_isnan, v[0])
        return _ew2(lambda a, b: P.ONE - P.b_eq(a, b), v[0], v[1])

    def _is_bool(self, var):
        return np.dtype(var.aval.dtype) == np.bool_

    def p_and(self, eqn, v):
        if not self._is_bool(eqn.outvars[0]):
            raise Unsupported("bitwise and on symbolic integers")
        return _ew2(P.b_and, v[0], v[1])

    def p_or(self, eqn, v):
        if not self._is_bool(eqn.outvars[0]):
            raise Unsupported("bitwise or on symbolic integers")
        return _ew2(P.b_or, v[0], v[1])

    def p_not(self, eqn, v):
        if not self._is_bool(eqn.outvars[0]):
            raise Unsupported("bitwise not on symbolic integers")
        return _ew1(P.b_not, v[0])

    def p_one_minus_square(self, eqn, v):
        """1 - x**2 (used by JAX for the derivative of tanh)"""
        return _ew1(lambda p: P.ONE - p * p, v[0])

    def p_unstack(self, eqn, v):
        """tuple unpacking of an array (`a, b = arr`): one output per index along `axis`"""
        a = to_obj(v[0]) if not is_sym(v[0]) else v[0]
        ax = eqn.params.get("axis", 0)
        outs = []
        for k in range(a.shape[ax]):
            idx = [slice(None)] * a.ndim
            idx[ax] = k
            sub = a[tuple(idx)]
            if not isinstance(sub, np.ndarray):
                z = np.empty((), dtype=object)
                z[()] = sub
                sub = z
            outs.append(sub)
        return outs

    def p_select_n(self, eqn, v):
        pred, cases = v[0], v[1:]
        if not is_sym(pred):
            pred = np.asarray(pred)
            cs = [to_obj(c) for c in cases]
            pred_b, *cs = np.broadcast_arrays(pred.astype(np.int64), *cs)
            out = np.empty(cs[0].shape, dtype=object)
            if out.ndim == 0:
                out[()] = cs[int(pred_b)][()]
                return out
            for idx in np.ndindex(*out.shape):
                out[idx] = cs[int(pred_b[idx])][idx]
            return out
        if len(cases) != 2:
            raise Unsupported("select_n with symbolic predicate and != 2 cases")
        c0, c1 = to_obj(cases[0]), to_obj(cases[1])
        return self._blend(pred, c1, c0)

    def _blend(self, b, t, f):
        """b*t + (1-b)*f element-wise, b an idempotent 0/1 polynomial"""
        b, t, f = np.broadcast_arrays(to_obj(b), to_obj(t), to_obj(f))
        out = np.empty(t.shape, dtype=object)
        if out.ndim == 0:
            out[()] = _blend1(b[()], t[()], f[()])
            return out
        for idx in np.ndindex(*out.shape):
            out[idx] = _blend1(b[idx], t[idx], f[idx])
        return out

    def p_convert_element_type(self, eqn, v):
        src = np.dtype(eqn.invars[0].aval.dtype)
        dst = np.dtype(eqn.params["new_dtype"])
        x = v[0]
        if dst == np.bool_ and src != np.bool_:
            return _ew1(lambda p: P.ONE - P.b_eq(p, P.ZERO), x)
        if np.issubdtype(dst, np.integer) and np.issubdtype(src, np.floating):
            # truncation towards zero: an interpreted-by-name atom (congruent, evaluated numerically on replay)
            return _ew1(lambda p: P.Poly.const(int(p.const_value())) if p.is_const() else P.fn("trunc", p), x)
        if np.issubdtype(dst, np.inexact) and np.issubdtype(src, np.inexact) and dst.itemsize < src.itemsize:
            # an explicit narrowing of a floating value (float64 -> float32 ...) is a rounding, not the identity: a value
            # stored in a narrower type is no longer the value that was computed
            nm = f"round_to_{dst.name}"
            return _ew1(lambda p: p if p.is_const() else P.fn(nm, p), x)
        return x

    def p_reduce_precision(self, eqn, v):
        return v[0]

    def p_copy(self, eqn, v):
        return v[0]

    p_copy_p = p_copy

    def p_stop_gradient(self, eqn, v):
        return v[0]

    def p_reduce_sum(self, eqn, v):
        axes = tuple(eqn.params["axes"])
        a = to_obj(v[0])
        if a.size == 0 or any(a.shape[ax] == 0 for ax in axes):
            shp = tuple(s for i, s in enumerate(a.shape) if i not in axes)
            return obj_array(shp, P.ZERO)
        return fix_obj(np.add.reduce(a, axis=axes) if axes else a)

    def p_reduce_prod(self, eqn, v):
        axes = tuple(eqn.params["axes"])
        a = to_obj(v[0])
        return fix_obj(np.multiply.reduce(a, axis=axes) if axes else a)

    def _reduce_with(self, f, eqn, v):
        axes = tuple(eqn.params["axes"])
        a = to_obj(v[0])
        keep = [i for i in range(a.ndim) if i not in axes]
        a = a.transpose(keep + list(axes))
        shp = a.shape[:len(keep)]
        a = a.reshape(shp + (-1,))
        out = np.empty(shp, dtype=object)
        for idx in np.ndindex(*shp):
            row = a[idx]
            acc = row[0]
            for k in range(1, row.size):
                acc = f(acc, row[k])
            out[idx] = acc
        return out

    def p_reduce_max(self, eqn, v):
        return self._reduce_with(P.p_max, eqn, v)

    def p_reduce_min(self, eqn, v):
        return self._reduce_with(P.p_min, eqn, v)

    def p_reduce_or(self, eqn, v):
        return self._reduce_with(P.b_or, eqn, v)

    def p_reduce_and(self, eqn, v):
        return self._reduce_with(P.b_and, eqn, v)

    def p_cumsum(self, eqn, v):
        axis, reverse = eqn.params["axis"], eqn.params.get("reverse", False)
        a = to_obj(v[0])
        a = np.moveaxis(a, axis, -1)
        out = np.empty(a.shape, dtype=object)
        n = a.shape[-1]
        for idx in np.ndindex(*a.shape[:-1]):
            acc = P.ZERO
            rng = range(n - 1, -1, -1) if reverse else range(n)
            for k in rng:
                acc = acc + a[idx + (k,)]
                out[idx + (k,)] = acc
        return np.moveaxis(out, -1, axis)

    def p_dot_general(self, eqn, v):
        (ca, cb), (ba, bb) = eqn.params["dimension_numbers"]
        a, b = to_obj(v[0]), to_obj(v[1])
        ca, cb, ba, bb = list(ca), list(cb), list(ba), list(bb)
        a_free = [d for d in range(a.ndim) if d not in ca and d not in ba]
        b_free = [d for d in range(b.ndim) if d not in cb and d not in bb]
        bshape = tuple(a.shape[d] for d in ba)
        afs = tuple(a.shape[d] for d in a_free)
        bfs = tuple(b.shape[d] for d in b_free)
        C = int(np.prod([a.shape[d] for d in ca])) if ca else 1
        B = int(np.prod(bshape)) if bshape else 1
        Af = int(np.prod(afs)) if afs else 1
        Bf = int(np.prod(bfs)) if bfs else 1
        at = a.transpose(ba + a_free + ca).reshape(B, Af, C)
        bt = b.transpose(bb + cb + b_free).reshape(B, C, Bf)
        out = np.empty((B, Af, Bf), dtype=object)
        for i in range(B):
            for r in range(Af):
                row = at[i, r]
                nz = [k for k in range(C) if not row[k].is_zero()]
                for c in range(Bf):
                    acc = P.ZERO
                    col = bt[i, :, c]
                    for k in nz:
                        y = col[k]
                        if y.is_zero():
                            continue
                        acc = acc + row[k] * y
                    out[i, r, c] = acc
        return out.reshape(bshape + afs + bfs)

    def p_scatter_add(self, eqn, v):
        operand, indices, updates = v
        if is_sym(indices):
            raise Unsupported("scatter-add with symbolic indices")
        upd = to_obj(updates)
        opd = to_obj(operand)
        n = upd.size
        idx = jnp.asarray(indices)
        prim, params = eqn.primitive, eqn.params

        def f(u):
            return prim.bind(jnp.zeros(opd.shape), idx, u.reshape(upd.shape), **params)
        M = np.asarray(jax.vmap(f)(jnp.eye(n))).reshape(n, -1)
        out = opd.copy().reshape(-1)
        uf = upd.reshape(-1)
        rows, cols = np.nonzero(M)
        for i, k in zip(rows, cols):
            out[k] = out[k] + uf[i] * P.Poly.const(float(M[i, k]))
        return out.reshape(opd.shape)

    def p_rem(self, eqn, v):
        raise Unsupported("rem on symbolic operands")

    def p_sort(self, eqn, v):
        """sort with concrete keys and symbolic payload operands: the permutation is JAX's (identifier arrays)"""
        nk = eqn.params["num_keys"]
        if any(is_sym(x) for x in v[:nk]):
            raise Unsupported("sort with symbolic keys")
        pool, args, off, symp = [], list(v), 0, []
        for i, x in enumerate(v):
            if is_sym(x):
                ids = np.arange(off, off + x.size, dtype=np.int64).reshape(x.shape)
                pool.extend(x.reshape(-1).tolist())
                off += x.size
                args[i] = jnp.asarray(ids)
                symp.append(i)
            else:
                args[i] = x if not isinstance(x, np.ndarray) else jnp.asarray(x)
        outs = eqn.primitive.bind(*args, **eqn.params)
        res = []
        for i, o in enumerate(outs):
            if i in symp:
                o = np.asarray(o)
                r = np.empty(o.shape, dtype=object)
                fr, fo = r.reshape(-1), o.reshape(-1)
                for k in range(fo.size):
                    fr[k] = pool[int(fo[k])]
                res.append(r)
            else:
                res.append(o)
        return res

    def p_is_finite(self, eqn, v):
        # finite == neither NaN nor +-inf (two independent idempotent atoms: floats are reals + these two predicates)
        return _ew1(lambda p: (P.ONE - P.b_isnan(p)) * (P.ONE - P.b_isinf(p)), v[0])

    # -- opaque functions
    def p_pure_callback(self, eqn, vals):
        cb = eqn.params["callback"]
        f = getattr(cb, "callback_func", cb)
        tag = getattr(f, "opaque", None)
        if tag is None:
            raise Unsupported("pure_callback that is not an opaque function")
        F, k = tag
        (x,) = vals
        x = to_obj(x)
        self.opaque_calls += 1
        bshape = x.shape[:-1]
        assert x.shape[-1] == F.n
        rshape = (F.m,) + (F.n,) * k
        out = np.empty(bshape + rshape, dtype=object)
        for b in np.ndindex(*bshape):
            args = tuple(x[b + (i,)] for i in range(F.n))
            cache = {}
            for r in np.ndindex(*rshape):
                key = (r[0], tuple(sorted(r[1:])))
                a = cache.get(key)
                if a is None:
                    a = P.app(F.name, r[0], r[1:], args)
                    cache[key] = a
                out[b + r] = a
        return [out]

    # -- higher-order primitives
    def _closed(self, j):
        if hasattr(j, "jaxpr") and hasattr(j, "consts"):
            return j.jaxpr, j.consts
        return j, ()

    def p_pjit(self, eqn, vals):
        j, c = self._closed(eqn.params["jaxpr"])
        return self.eval_jaxpr(j, c, vals)

    p_jit = p_pjit

    def p_closed_call(self, eqn, vals):
        j, c = self._closed(eqn.params["call_jaxpr"])
        return self.eval_jaxpr(j, c, vals)

    p_core_call = p_closed_call
    p_custom_jvp_call = p_closed_call

    def p_remat(self, eqn, vals):
        j, c = self._closed(eqn.params["jaxpr"])
        return self.eval_jaxpr(j, c, vals)

    p_checkpoint = p_remat

    def p_custom_vjp_call(self, eqn, vals):
        j = eqn.params.get("call_jaxpr", None) or eqn.params.get("fun_jaxpr")
        j, c = self._closed(j)
        return self.eval_jaxpr(j, c, vals)

    p_custom_vjp_call_jaxpr = p_custom_vjp_call

    def p_cond(self, eqn, vals):
        idx, ops = vals[0], vals[1:]
        branches = eqn.params["branches"]
        if not is_sym(idx):
            j, c = self._closed(branches[int(np.asarray(idx))])
            return self.eval_jaxpr(j, c, ops)
        if len(branches) != 2:
            raise Unsupported("cond on a symbolic index with != 2 branches")
        b = idx[()] if idx.ndim == 0 else idx.reshape(-1)[0]
        j0, c0 = self._closed(branches[0])
        j1, c1 = self._closed(branches[1])
        out_f = self.eval_jaxpr(j0, c0, ops)
        out_t = self.eval_jaxpr(j1, c1, ops)
        res = []
        for t, f in zip(out_t, out_f):
            if not is_sym(t) and not is_sym(f):
                ta, fa = np.asarray(t), np.asarray(f)
                if ta.dtype != object and ta.shape == fa.shape and np.array_equal(ta, fa):
                    res.append(t)
                    continue
            res.append(self._blend(np.asarray(b, dtype=object).reshape(()), t, f))
        return res

    def p_while(self, eqn, vals):
        cj, cc = self._closed(eqn.params["cond_jaxpr"])
        bj, bc = self._closed(eqn.params["body_jaxpr"])
        nc, nb = eqn.params["cond_nconsts"], eqn.params["body_nconsts"]
        cconst, bconst, carry = vals[:nc], vals[nc:nc + nb], list(vals[nc + nb:])
        for _ in range(self.while_cap):
            (t,) = self.eval_jaxpr(cj, cc, list(cconst) + carry)
            if is_sym(t):
                p = t[()]
                if not p.is_const():
                    raise Unsupported("while loop with a symbolic guard")
                t = p.const_value() != 0
            if not bool(np.asarray(t)):
                return carry
            carry = list(self.eval_jaxpr(bj, bc, list(bconst) + carry))
        raise Unsupported(f"while loop exceeds the unrolling cap {self.while_cap}")

    def p_scan(self, eqn, vals):
        p = eqn.params
        j, c = self._closed(p["jaxpr"])
        length, reverse = p["length"], p["reverse"]
        if "num_consts" in p:
            nconst, ncarry = p["num_consts"], p["num_carry"]
        else:                       # jax >= 0.11: ft_in = (consts, carry, xs) specs
            fc, fk, _fx = p["ft_in"].unpack()
            nconst, ncarry = len(fc), len(fk)
        consts, carry, xs = vals[:nconst], list(vals[nconst:nconst + ncarry]), vals[nconst + ncarry:]
        ys = None
        order = range(length - 1, -1, -1) if reverse else range(length)
        for i in order:
            xi = [x[i] if is_sym(x) else np.asarray(x)[i] for x in xs]
            out = self.eval_jaxpr(j, c, list(consts) + carry + xi)
            carry, y = list(out[:ncarry]), out[ncarry:]
            if ys is None:
                ys = [[None] * length for _ in y]
            for k, yk in enumerate(y):
                ys[k][i] = yk
        nys = len(eqn.outvars) - ncarry
        if ys is None:
            ys = [[] for _ in range(nys)]
        stacked = []
        for k, col in enumerate(ys):
            if length == 0:
                av = eqn.outvars[ncarry + k].aval
                stacked.append(np.zeros(av.shape, dtype=av.dtype))
            elif any(is_sym(e) for e in col):
                stacked.append(np.stack([to_obj(e) for e in col], axis=0))
            else:
                stacked.append(np.stack([np.asarray(e) for e in col], axis=0))
        return carry + stacked


def _blend1(b, t, f):
    if t is f or t == f:
        return t
    if b.is_const():
        return t if b.const_value() != 0 else f
    return b * t + (P.ONE - b) * f


HIGHER_ORDER = {"pjit", "jit", "closed_call", "core_call", "custom_jvp_call", "remat", "checkpoint",
                "custom_vjp_call", "custom_vjp_call_jaxpr", "cond", "while", "scan"}

STRUCTURAL = {
    "reshape": [0], "transpose": [0], "squeeze": [0], "broadcast_in_dim": [0], "slice": [0],
    "rev": [0], "concatenate": "all", "pad": [0, 1], "split": [0], "tile": [0], "stack": "all",
    "expand_dims": [0],
    "dynamic_slice": [0], "dynamic_update_slice": [0, 1], "gather": [0], "scatter": [0, 2],
    "real": [0],
}

UNARY_ATOMS = {"sin", "cos", "tan", "tanh", "logistic", "erf", "log1p", "expm1", "floor", "ceil",
               "round", "asin", "acos", "atan", "sinh", "cosh", "erf_inv", "lgamma", "digamma"}


# ----------------------------------------------------------------------------- front end

def trace(fn, *example_args, **kw):
    """jax.make_jaxpr on the real function; returns (closed_jaxpr, out_tree)"""
    closed, out_shape = jax.make_jaxpr(fn, return_shape=True, **kw)(*example_args)
    return closed, jax.tree_util.tree_structure(out_shape)


def run_symbolic(fn, sym_args, example_args=None, interp=None):
    """
    fn: function of pytrees of arrays; sym_args: same pytrees but with leaves being numpy object
    arrays of Poly (symbolic) or concrete arrays.  Returns (pytree of results, Interp).
    """
    flat_sym, tree = jax.tree_util.tree_flatten(
        sym_args, is_leaf=lambda x: isinstance(x, np.ndarray) and x.dtype == object)
    if example_args is None:
        ex = []
        for s in flat_sym:
            if is_sym(s):
                kind = _leaf_kind(s)
                ex.append(np.zeros(s.shape, dtype=kind) + (0 if kind == np.bool_ else 0))
            else:
                ex.append(s)
        example_args = jax.tree_util.tree_unflatten(tree, ex)
    closed, out_tree = trace(lambda *a: fn(*a), *example_args)
    it = interp or Interp()
    outs = it.eval_jaxpr(closed.jaxpr, closed.consts, flat_sym)
    return jax.tree_util.tree_unflatten(out_tree, outs), it


def _leaf_kind(s):
    e = s.reshape(-1)[0] if s.size else None
    if e is not None and len(e.terms) == 1:
        (m, _), = e.terms.items()
        if len(m) == 1 and P.atom_by_id(m[0][0]).kind == "bool":
            return np.bool_
    return np.float64
