"""
Lowering of polynomial obligations to SMT (z3 python API; cvc5 binary for z3's unknowns).

  sym atoms   -> Real constants            bool atoms -> Bool constants (as ite(b,1,0))
  app atoms   -> one Real constant per distinct atom (sound for validity: if the identity
                 holds for arbitrary values of the jets it holds for every C^K function)
  fn atoms    -> inv: 1/p (with p != 0 assumed and reported), sqrt: s with s*s = p, s >= 0,
                 lt/eq: ite, isnan: Bool constant, abs: ite, everything else: Real constant.
"""
from __future__ import annotations
import subprocess
import tempfile
import os
import time
import z3
from . import poly as P
from .poly import Poly


class Lowering:
    def __init__(self):
        self.cache = {}
        self.side = []          # assumptions introduced by the lowering (sqrt definitions, ...)
        self.nonreal = {}       # argument key -> {"nan": Bool, "inf": Bool}: a value is not NaN and infinite at once
        self.names = {}

    def atom(self, i):
        e = self.cache.get(i)
        if e is not None:
            return e
        a = P.atom_by_id(i)
        k = a.key
        nm = f"a{i}"
        self.names[nm] = P.atom_str(a)
        if k[0] == "sym":
            if k[1] == P.INF_NAME:
                from .jxinterp import Unsupported
                raise Unsupported("an infinite constant survives in an arithmetic position of the formula")
            e = z3.Real(nm)
        elif k[0] == "bool":
            e = z3.If(z3.Bool(nm), z3.RealVal(1), z3.RealVal(0))
        elif k[0] == "app":
            e = z3.Real(nm)
            # a function declared positive in the contract's precondition (e.g. a population) has positive values
            try:
                from .opaque import registry
                F = registry().get(k[1])
                if F is not None and getattr(F, "positive", False) and not k[3]:
                    self.side.append(e > 0)
            except Exception:
                pass
        else:
            op = k[1]
            args = [self.poly(P.poly_from_key(x)) for x in k[2] if isinstance(x, tuple)]
            if op == "inv":
                e = 1 / args[0]
            elif op == "sqrt":
                e = z3.Real(nm)
                self.side.append(e * e == args[0])
                self.side.append(e >= 0)
            elif op == "lt":
                e = z3.If(args[0] < 0, z3.RealVal(1), z3.RealVal(0))
            elif op == "eq":
                e = z3.If(args[0] == 0, z3.RealVal(1), z3.RealVal(0))
            elif op == "isnan":
                e = z3.If(z3.Bool(nm), z3.RealVal(1), z3.RealVal(0))
                self.nonreal.setdefault(k[2][0], {})["nan"] = z3.Bool(nm)
            elif op == "isinf":
                e = z3.If(z3.Bool(nm), z3.RealVal(1), z3.RealVal(0))
                self.nonreal.setdefault(k[2][0], {})["inf"] = z3.Bool(nm)
            elif op == "abs":
                e = z3.If(args[0] >= 0, args[0], -args[0])
            elif op == "sign":
                e = z3.If(args[0] > 0, z3.RealVal(1), z3.If(args[0] < 0, z3.RealVal(-1), z3.RealVal(0)))
            else:
                e = z3.Real(nm)
        self.cache[i] = e
        return e

    def poly(self, p: Poly):
        terms = []
        for m, c in p.terms.items():
            t = z3.RealVal(str(c))
            for i, ex in m:
                a = self.atom(i)
                if ex > 0:
                    for _ in range(ex):
                        t = t * a
                else:
                    for _ in range(-ex):
                        t = t / a
            terms.append(t)
        if not terms:
            return z3.RealVal(0)
        return z3.Sum(terms) if len(terms) > 1 else terms[0]


def check_valid(pairs, pre=(), nonzero=(), nonneg=(), timeout_ms=10000):
    """
    pairs: list of (lhs Poly, rhs Poly); proves  pre /\ side => AND lhs == rhs.
    returns dict(status in {'unsat','sat','unknown'}, backend, model, time_s)
    """
    t0 = time.time()
    low = Lowering()
    goal = []
    for l, r in pairs:
        goal.append(low.poly(l) == low.poly(r))
    assumptions = []
    for p in pre:
        assumptions.append(p(low) if callable(p) else p)
    for p in nonzero:
        assumptions.append(low.poly(p) != 0)
    for p in nonneg:
        assumptions.append(low.poly(p) >= 0)
    assumptions += low.side
    for d in low.nonreal.values():
        if "nan" in d and "inf" in d:
            assumptions.append(z3.Not(z3.And(d["nan"], d["inf"])))
    s = z3.Solver()
    s.set("timeout", timeout_ms)
    for a in assumptions:
        s.add(a)
    s.add(z3.Not(z3.And(goal)) if len(goal) > 1 else z3.Not(goal[0]))
    r = s.check()
    res = {"backend": "z3", "time_s": 0.0, "model": None}
    if r == z3.unsat:
        res["status"] = "unsat"
    elif r == z3.sat:
        res["status"] = "sat"
        res["model"] = _model(s.model(), low)
    else:
        res["status"] = "unknown"
        c = _cvc5(s.to_smt2(), timeout_ms)
        if c in ("unsat", "sat"):
            res["status"] = c
            res["backend"] = "cvc5"
    res["time_s"] = time.time() - t0
    return res


def _model(m, low):
    out = {}
    for d in m.decls():
        nm = d.name()
        v = m[d]
        try:
            if z3.is_true(v) or z3.is_false(v):
                val = 1.0 if z3.is_true(v) else 0.0
            elif z3.is_algebraic_value(v):
                val = float(v.approx(20).as_fraction())
            else:
                val = float(v.as_fraction())
        except Exception:
            continue
        out[low.names.get(nm, nm)] = val
    return out


def _cvc5(smt2: str, timeout_ms: int):
    exe = "/usr/bin/cvc5"
    if not os.path.exists(exe):
        return "unknown"
    with tempfile.NamedTemporaryFile("w", suffix=".smt2", delete=False) as f:
        f.write("(set-logic ALL)\n" + smt2)
        path = f.name
    try:
        out = subprocess.run([exe, "--lang", "smt2", f"--tlimit={timeout_ms}", path],
                             capture_output=True, text=True, timeout=timeout_ms / 1000 + 5)
        first = out.stdout.strip().split("\n")[0] if out.stdout.strip() else ""
        return first if first in ("sat", "unsat") else "unknown"
    except Exception:
        return "unknown"
    finally:
        os.unlink(path)
