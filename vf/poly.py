"""
Commutative-ring normal form used by the jaxpr-level VC generator (Engine B).

A value is a Laurent polynomial with rational coefficients over *atoms*.  Atoms are
interned; an atom is one of

  sym   : an input symbol (real or integer valued)                      ('sym', name)
  bool  : an input Boolean, 0/1 valued, idempotent (b*b == b)           ('bool', name)
  app   : value of the k-th mixed partial of component j of an opaque
          C^K function at a canonicalised argument tuple                 ('app', fname, j, derivs, args)
  fn    : an interpreted or uninterpreted operation applied to polys     ('fn', op, args)
          (inv, sqrt, log, exp, abs, lt, eq, isnan, max, ...)

Monomials carry integer exponents (negative exponents express 1/atom, so a/a == 1 is
built in; the division a/a presupposes a != 0, which is recorded by the engine as a
side condition `nonzero(a)`).  Equality of two normal forms is a complete decision
procedure for identities of commutative rings over free atoms; semantic facts about
`fn` atoms are left to the SMT back end (vf.smt).
"""
from __future__ import annotations
from fractions import Fraction
import math
import itertools

_ATOMS: dict = {}
_ATOM_LIST: list = []


class Atom:
    __slots__ = ("key", "id", "idem", "kind")

    def __init__(self, key, idem):
        self.key = key
        self.idem = idem
        self.kind = key[0]
        self.id = len(_ATOM_LIST)
        _ATOM_LIST.append(self)

    def __repr__(self):
        return atom_str(self)


def atom(key, idem=False) -> Atom:
    a = _ATOMS.get(key)
    if a is None:
        a = Atom(key, idem)
        _ATOMS[key] = a
    return a


def atom_by_id(i) -> Atom:
    return _ATOM_LIST[i]


def atom_str(a: Atom) -> str:
    k = a.key
    if k[0] in ("sym", "bool"):
        return k[1]
    if k[0] == "app":
        _, fname, j, derivs, args = k
        d = "" if not derivs else "_d[" + ",".join(map(str, derivs)) + "]"
        return f"{fname}_{j}{d}(" + ", ".join(poly_from_key(x).__str__() for x in args) + ")"
    if k[0] == "fn":
        _, op, args = k
        return f"{op}(" + ", ".join(
            poly_from_key(x).__str__() if isinstance(x, tuple) else str(x) for x in args) + ")"
    return str(k)


IDEM_FNS = {"lt", "eq", "isnan", "isinf", "and", "or", "not", "pred"}


def _frac(c):
    if isinstance(c, Fraction):
        return c
    if isinstance(c, bool):
        return Fraction(int(c))
    if isinstance(c, int):
        return Fraction(c)
    if hasattr(c, "dtype"):
        import numpy as np
        if c.dtype == np.bool_:
            return Fraction(int(c))
        if np.issubdtype(c.dtype, np.integer):
            return Fraction(int(c))
        c = float(c)
    if isinstance(c, float):
        return float_to_frac(c)
    raise TypeError(f"cannot coerce {type(c)} to a coefficient")


def float_to_frac(x: float) -> Fraction:
    """Simplest rational that rounds to the same float64 (so x/3 and x*(1/3) coincide)."""
    if math.isnan(x) or math.isinf(x):
        raise NonFinite(x)
    if x == int(x) and abs(x) < 2 ** 53:
        return Fraction(int(x))
    f = Fraction(x)
    for lim in (10 ** 3, 10 ** 6, 10 ** 9, 10 ** 12):
        g = f.limit_denominator(lim)
        if float(g) == x:
            return g
    # float32 constants embedded in a float64 computation
    import numpy as np
    x32 = np.float32(x)
    if float(x32) == x:
        for lim in (10 ** 3, 10 ** 6):
            g = f.limit_denominator(lim)
            if np.float32(float(g)) == x32:
                return g
    return f


class NonFinite(Exception):
    pass


INF_NAME = "+inf"


def inf_sign(p):
    """+1 / -1 if p is exactly the constant +inf / -inf, else 0"""
    if len(p.terms) != 1:
        return 0
    (m, c), = p.terms.items()
    if len(m) == 1 and m[0][1] == 1 and _ATOM_LIST[m[0][0]].key == ("sym", INF_NAME) and abs(c) == 1:
        return 1 if c > 0 else -1
    return 0


def mentions_inf(p):
    return any(_ATOM_LIST[i].key == ("sym", INF_NAME) for i in p.atoms())


class Poly:
    """terms: dict  monomial -> Fraction,  monomial = tuple of (atom_id, exponent) sorted by id"""
    __slots__ = ("terms", "_key")
    __array_priority__ = 1000

    def __init__(self, terms=None):
        self.terms = terms if terms is not None else {}
        self._key = None

    # ---- constructors
    @staticmethod
    def const(c):
        # the constants +inf / -inf (initial "best value so far", fill values): a dedicated symbol that only comparisons,
        # max / min and selections understand; any other use of it is refused when the formula is lowered
        try:
            fc = float(c)
            if math.isinf(fc):
                inf = Poly.sym(INF_NAME)
                return inf if fc > 0 else -inf
        except (TypeError, ValueError, OverflowError):
            pass
        c = _frac(c)
        return Poly({(): c}) if c != 0 else Poly({})

    @staticmethod
    def of_atom(a: Atom):
        return Poly({((a.id, 1),): Fraction(1)})

    @staticmethod
    def sym(name):
        return Poly.of_atom(atom(("sym", name)))

    @staticmethod
    def boolean(name):
        return Poly.of_atom(atom(("bool", name), idem=True))

    # ---- structure
    def key(self):
        if self._key is None:
            self._key = tuple(sorted(self.terms.items()))
        return self._key

    def __hash__(self):
        return hash(self.key())

    def is_const(self):
        return all(m == () for m in self.terms)

    def const_value(self):
        return self.terms.get((), Fraction(0))

    def is_zero(self):
        return not self.terms

    def atoms(self):
        s = set()
        for m in self.terms:
            for (i, _) in m:
                s.add(i)
        return s

    def all_atoms(self, acc=None):
        """transitively: atoms appearing in arguments of atoms too"""
        acc = set() if acc is None else acc
        for i in self.atoms():
            if i in acc:
                continue
            acc.add(i)
            a = _ATOM_LIST[i]
            for sub in atom_args(a):
                sub.all_atoms(acc)
        return acc

    # ---- arithmetic
    def __add__(self, o):
        o = as_poly(o)
        if o is NotImplemented:
            return NotImplemented
        if not o.terms:
            return self
        if not self.terms:
            return o
        t = dict(self.terms)
        for m, c in o.terms.items():
            v = t.get(m)
            if v is None:
                t[m] = c
            else:
                v = v + c
                if v == 0:
                    del t[m]
                else:
                    t[m] = v
        return Poly(t)

    __radd__ = __add__

    def __neg__(self):
        return Poly({m: -c for m, c in self.terms.items()})

    def __sub__(self, o):
        o = as_poly(o)
        if o is NotImplemented:
            return NotImplemented
        return self + (-o)

    def __rsub__(self, o):
        o = as_poly(o)
        if o is NotImplemented:
            return NotImplemented
        return o + (-self)

    def __mul__(self, o):
        o = as_poly(o)
        if o is NotImplemented:
            return NotImplemented
        if not self.terms or not o.terms:
            return ZERO
        if len(o.terms) == 1 and () in o.terms:
            c = o.terms[()]
            if c == 1:
                return self
            return Poly({m: v * c for m, v in self.terms.items()})
        if len(self.terms) == 1 and () in self.terms:
            c = self.terms[()]
            if c == 1:
                return o
            return Poly({m: v * c for m, v in o.terms.items()})
        t = {}
        for m1, c1 in self.terms.items():
            for m2, c2 in o.terms.items():
                m = mono_mul(m1, m2)
                c = c1 * c2
                v = t.get(m)
                if v is None:
                    t[m] = c
                else:
                    v = v + c
                    if v == 0:
                        del t[m]
                    else:
                        t[m] = v
        return Poly(t)

    __rmul__ = __mul__

    def __pow__(self, n):
        if isinstance(n, Poly):
            if not n.is_const():
                return fn("pow", self, n)
            n = n.const_value()
        n = _frac(n)
        if n.denominator != 1:
            if n == Fraction(1, 2):
                return sqrt(self)
            return fn("pow", self, Poly.const(n))
        n = int(n)
        if n < 0:
            return inv(self) ** (-n)
        r = ONE
        b = self
        while n:
            if n & 1:
                r = r * b
            n >>= 1
            if n:
                b = b * b
        return r

    def __truediv__(self, o):
        o = as_poly(o)
        if o is NotImplemented:
            return NotImplemented
        return self * inv(o)

    def __rtruediv__(self, o):
        o = as_poly(o)
        if o is NotImplemented:
            return NotImplemented
        return o * inv(self)

    def __eq__(self, o):
        o = as_poly(o)
        if o is NotImplemented:
            return False
        return self.terms == o.terms

    def __ne__(self, o):
        return not self.__eq__(o)

    def __bool__(self):
        raise TypeError("truth value of a symbolic polynomial requested")

    def __float__(self):
        if self.is_const():
            return float(self.const_value())
        raise TypeError("symbolic polynomial is not a constant")

    # ---- printing
    def __str__(self):
        if not self.terms:
            return "0"
        out = []
        for m, c in sorted(self.terms.items(), key=lambda kv: (len(kv[0]), kv[0])):
            ms = "*".join(
                (atom_str(_ATOM_LIST[i]) + (f"^{e}" if e != 1 else "")) for i, e in m)
            if not ms:
                out.append(str(c))
            elif c == 1:
                out.append(ms)
            elif c == -1:
                out.append("-" + ms)
            else:
                out.append(f"{c}*{ms}")
        return " + ".join(out).replace("+ -", "- ")

    __repr__ = __str__


def mono_mul(m1, m2):
    if not m1:
        return m2
    if not m2:
        return m1
    d = dict(m1)
    for i, e in m2:
        v = d.get(i)
        if v is None:
            d[i] = e
        else:
            if _ATOM_LIST[i].idem:
                d[i] = 1
            else:
                v += e
                if v == 0:
                    del d[i]
                else:
                    d[i] = v
    return tuple(sorted(d.items()))


ZERO = Poly({})
ONE = Poly({(): Fraction(1)})


def as_poly(x):
    if isinstance(x, Poly):
        return x
    try:
        return Poly.const(x)
    except TypeError:
        return NotImplemented


def poly_from_key(k) -> Poly:
    return Poly(dict(k))


def atom_args(a: Atom):
    k = a.key
    if k[0] == "app":
        return [poly_from_key(x) for x in k[4]]
    if k[0] == "fn":
        return [poly_from_key(x) for x in k[2] if isinstance(x, tuple)]
    return []


def dom_conditions(polys):
    """definedness conditions of a family of polynomials: ("nz", q) for every division by q (negative exponent or
    inv atom), ("nn", q) for every sqrt(q); nested atom arguments included"""
    out, seen = [], set()

    def add(kind, q):
        k = (kind, q.key())
        if k not in seen:
            seen.add(k)
            out.append((kind, q))

    done = set()

    def walk(p):
        for m in p.terms:
            for (i, e) in m:
                a = _ATOM_LIST[i]
                if e < 0:
                    add("nz", Poly.of_atom(a))
                if i in done:
                    continue
                done.add(i)
                k = a.key
                if k[0] == "fn":
                    args = atom_args(a)
                    if k[1] == "inv":
                        add("nz", args[0])
                    elif k[1] in ("sqrt", "log"):
                        add("nn", args[0])
                    for q in args:
                        walk(q)
                elif k[0] == "app":
                    for q in atom_args(a):
                        walk(q)
    for p in polys:
        walk(p)
    return out


def norm_cond(kind, q):
    """normal form used to match conditions up to a constant factor"""
    q = as_poly(q)
    if q.is_zero() or q.is_const():
        return (kind, q.key())
    lead = q.key()[0][1]
    f = abs(lead) if kind == "nn" else lead
    return (kind, (q * Poly.const(1 / f)).key())


# ------------------------------------------------------------------ fn atoms

def fn(op, *args, idem=None):
    key = ("fn", op, tuple(a.key() if isinstance(a, Poly) else a for a in args))
    return Poly.of_atom(atom(key, idem=(op in IDEM_FNS) if idem is None else idem))


def app(fname, j, derivs, args):
    """value of d^k F_j / d y_{i1} .. d y_{ik} at args (Schwarz: derivs sorted)"""
    key = ("app", fname, int(j), tuple(sorted(int(d) for d in derivs)),
           tuple(as_poly(a).key() for a in args))
    return Poly.of_atom(atom(key))


def inv(p: Poly) -> Poly:
    p = as_poly(p)
    if p.is_zero():
        raise ZeroDivisionError("division by the zero polynomial")
    if len(p.terms) == 1:
        (m, c), = p.terms.items()
        for i, e in m:
            if _ATOM_LIST[i].idem:
                break
        else:
            return Poly({tuple((i, -e) for i, e in m): 1 / c})
    # canonicalise: leading coefficient 1
    lead = p.key()[0][1]
    q = p * Poly.const(1 / lead)
    return fn("inv", q) * Poly.const(1 / lead)


def sqrt(p: Poly) -> Poly:
    p = as_poly(p)
    if p.is_const():
        c = p.const_value()
        if c >= 0:
            n, d = math.isqrt(c.numerator), math.isqrt(c.denominator)
            if n * n == c.numerator and d * d == c.denominator:
                return Poly.const(Fraction(n, d))
    return fn("sqrt", p)


def unary(op, p):
    p = as_poly(p)
    if op == "abs" and p.is_const():
        return Poly.const(abs(p.const_value()))
    if op == "sign" and p.is_const():
        c = p.const_value()
        return Poly.const((c > 0) - (c < 0))
    if op == "exp" and p.is_zero():
        return ONE
    if op == "log" and p == ONE:
        return ZERO
    return fn(op, p)


# Booleans are 0/1-valued polynomials over idempotent atoms.
def _single_bool(d):
    """d == s*b + k with b one idempotent atom, s = +-1, k a constant: returns (s, b, k)"""
    nc = [(m, c) for m, c in d.terms.items() if m != ()]
    if len(nc) == 1:
        m, cf = nc[0]
        if len(m) == 1 and m[0][1] == 1 and _ATOM_LIST[m[0][0]].idem and cf in (1, -1):
            return int(cf), Poly.of_atom(_ATOM_LIST[m[0][0]]), d.terms.get((), Fraction(0))
    return None


def b_lt(p, q):
    p, q = as_poly(p), as_poly(q)
    sp, sq = inf_sign(p), inf_sign(q)
    if sp or sq:        # against a finite real (all symbolic values are; NaN is probed separately)
        return ONE if (sp < sq if (sp and sq) else (sq > 0 or sp < 0)) else ZERO
    d = p - q
    if d.is_const():
        return ONE if d.const_value() < 0 else ZERO
    sb = _single_bool(d)
    if sb is not None:          # value at b=0 is k, at b=1 is s+k
        s, b, k = sb
        v0, v1 = (ONE if k < 0 else ZERO), (ONE if s + k < 0 else ZERO)
        return b * v1 + (ONE - b) * v0
    return fn("lt", d)          # lt(d) means d < 0


def b_eq(p, q):
    p, q = as_poly(p), as_poly(q)
    sp, sq = inf_sign(p), inf_sign(q)
    if sp or sq:
        return ONE if sp == sq else ZERO
    d = p - q
    if d.is_const():
        return ONE if d.const_value() == 0 else ZERO
    sb = _single_bool(d)
    if sb is not None:
        s_, b, k = sb
        v0, v1 = (ONE if k == 0 else ZERO), (ONE if s_ + k == 0 else ZERO)
        return b * v1 + (ONE - b) * v0
    # canonical sign
    k = d.key()
    if k[0][1] < 0:
        d = -d
    return fn("eq", d)          # eq(d) means d == 0


def b_isnan(p):
    p = as_poly(p)
    if p.is_const():
        return ZERO
    return fn("isnan", p)


def b_isinf(p):
    """p is +inf or -inf (the value is a float that is neither a real number nor NaN)"""
    p = as_poly(p)
    if p.is_const():
        return ZERO
    return fn("isinf", p)


def b_not(b):
    return ONE - b


def b_and(a, b):
    return a * b


def b_or(a, b):
    return a + b - a * b


def p_max(p, q):
    p, q = as_poly(p), as_poly(q)
    if inf_sign(p) or inf_sign(q):
        return q if b_lt(p, q) is ONE else p
    d = p - q
    if d.is_const():
        return p if d.const_value() >= 0 else q
    b = b_lt(p, q)
    return b * q + (ONE - b) * p


def p_min(p, q):
    p, q = as_poly(p), as_poly(q)
    if inf_sign(p) or inf_sign(q):
        return p if b_lt(p, q) is ONE else q
    d = p - q
    if d.is_const():
        return p if d.const_value() <= 0 else q
    b = b_lt(p, q)
    return b * p + (ONE - b) * q


# ------------------------------------------------------------------ evaluation

def evaluate(p: Poly, val, cache=None):
    """numeric value of p; val(atom) -> float for sym/bool/app atoms, fn atoms interpreted"""
    cache = {} if cache is None else cache
    tot = 0.0
    for m, c in p.terms.items():
        v = float(c)
        dead = False
        for i, e in m:
            a = _ATOM_LIST[i]
            x = cache.get(i)
            if x is None:
                x = _eval_atom(a, val, cache)
                cache[i] = x
            if a.idem and x == 0.0:
                dead = True          # a Boolean factor that is false selects the other branch: the term is absent, even if
                break                # another factor is NaN / infinite (select semantics, not 0 * NaN)
            v *= x ** e
        if not dead:
            tot += v
    return tot


def _eval_atom(a, val, cache):
    k = a.key
    if k == ("sym", INF_NAME):
        return math.inf
    if k[0] != "fn":
        return float(val(a))
    op = k[1]
    args = [evaluate(poly_from_key(x), val, cache) if isinstance(x, tuple) else x for x in k[2]]
    if op == "inv":
        return 1.0 / args[0]
    if op == "sqrt":
        return math.sqrt(args[0])
    if op == "log":
        return math.log(args[0])
    if op == "exp":
        return math.exp(args[0])
    if op == "abs":
        return abs(args[0])
    if op == "trunc":
        return float(math.trunc(args[0]))
    if op == "sign":
        return float((args[0] > 0) - (args[0] < 0))
    if op == "lt":
        return 1.0 if args[0] < 0 else 0.0
    if op == "eq":
        return 1.0 if args[0] == 0 else 0.0
    if op == "isnan":
        return 1.0 if math.isnan(args[0]) else 0.0
    if op == "isinf":
        return 1.0 if math.isinf(args[0]) else 0.0
    if op.startswith("round_to_"):
        import numpy as _np
        try:
            import ml_dtypes as _ml
            dt = {"bfloat16": _ml.bfloat16}.get(op[9:]) or _np.dtype(op[9:])
        except Exception:
            dt = _np.dtype(op[9:])
        return float(_np.asarray(args[0], dtype=dt))
    if op == "pow":
        return args[0] ** args[1]
    if op in ("sin", "cos", "tanh", "tan"):
        return getattr(math, op)(args[0])
    if op == "logistic":
        return 1.0 / (1.0 + math.exp(-args[0]))
    return float(val(a))


def subst(p: Poly, mapping: dict) -> Poly:
    """replace atoms (by id) with polynomials; recurses into atom arguments"""
    memo = {}

    def sub_atom(i):
        if i in memo:
            return memo[i]
        if i in mapping:
            r = as_poly(mapping[i])
        else:
            a = _ATOM_LIST[i]
            k = a.key
            if k[0] == "app":
                nargs = [sub_poly(poly_from_key(x)) for x in k[4]]
                r = app(k[1], k[2], k[3], nargs)
            elif k[0] == "fn":
                nargs = [sub_poly(poly_from_key(x)) if isinstance(x, tuple) else x for x in k[2]]
                r = rebuild_fn(k[1], nargs)
            else:
                r = Poly.of_atom(a)
        memo[i] = r
        return r

    def sub_poly(q):
        out = ZERO
        for m, c in q.terms.items():
            t = Poly.const(c)
            for i, e in m:
                t = t * (sub_atom(i) ** e)
            out = out + t
        return out

    return sub_poly(p)


def rebuild_fn(op, args):
    if op == "inv":
        return inv(args[0])
    if op == "sqrt":
        return sqrt(args[0])
    if op == "lt":
        return b_lt(args[0], ZERO)
    if op == "eq":
        return b_eq(args[0], ZERO)
    if op == "isnan":
        return b_isnan(args[0])
    if op == "isinf":
        return b_isinf(args[0])
    if op in ("abs", "sign", "exp", "log"):
        return unary(op, args[0])
    return fn(op, *args)


# ------------------------------------------------------------------ symbolic differentiation

def diff(p: Poly, s) -> Poly:
    """d p / d s for an input symbol s (Poly of one 'sym' atom, or its name); chain rule through
    opaque applications: d/ds F_j_d[D](args) = sum_l F_j_d[D+l](args) * d args_l / ds"""
    if isinstance(s, Poly):
        (m, _), = s.terms.items()
        sid = m[0][0]
    else:
        sid = atom(("sym", s)).id
    memo = {}

    def d_atom(i):
        r = memo.get(i)
        if r is not None:
            return r
        a = _ATOM_LIST[i]
        k = a.key
        if i == sid:
            r = ONE
        elif k[0] in ("sym", "bool"):
            r = ZERO
        elif k[0] == "app":
            _, fname, j, derivs, args = k
            r = ZERO
            for l, ak in enumerate(args):
                da = d_poly(poly_from_key(ak))
                if not da.is_zero():
                    r = r + app(fname, j, derivs + (l,), [poly_from_key(x) for x in args]) * da
        else:
            op = k[1]
            args = [poly_from_key(x) for x in k[2] if isinstance(x, tuple)]
            da = d_poly(args[0]) if args else ZERO
            if da.is_zero() and all(d_poly(x).is_zero() for x in args):
                r = ZERO
            elif op == "inv":
                r = -(Poly.of_atom(a) * Poly.of_atom(a)) * da
            elif op == "sqrt":
                r = da * inv(Poly.of_atom(a) * Poly.const(2))
            elif op == "log":
                r = da * inv(args[0])
            elif op == "exp":
                r = da * Poly.of_atom(a)
            elif op == "tanh":
                r = da * (ONE - Poly.of_atom(a) * Poly.of_atom(a))
            elif op == "sin":
                r = da * unary("cos", args[0])
            elif op == "cos":
                r = -(da * unary("sin", args[0]))
            elif op == "abs":
                r = da * unary("sign", args[0])
            elif op in ("lt", "eq", "isnan", "isinf", "sign"):
                r = ZERO
            elif op.startswith("round_to_"):
                r = da            # conversion is linear: the tangent is converted, not rounded away
            else:
                raise NotImplementedError(f"derivative of fn atom {op}")
        memo[i] = r
        return r

    def d_poly(q):
        out = ZERO
        for m, cf in q.terms.items():
            for idx, (i, e) in enumerate(m):
                da = d_atom(i)
                if da.is_zero():
                    continue
                rest = m[:idx] + (((i, e - 1),) if e != 1 else ()) + m[idx + 1:]
                out = out + Poly({tuple(sorted(rest)): cf * e}) * da
        return out

    return d_poly(p)
