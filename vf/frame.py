"""
Frame / ownership checker (DESIGN §1.3): the postcondition "assigns nothing reachable from the arguments" is decided
syntactically on the AST of every function in the call cone of given entry points, re-read from /repo on every run.

Provenance of a value: (self, content), each FRESH or ARG.
  ARG   : may be (an alias of) an object owned by the caller — a parameter, or anything reached from one by
          attribute / subscript / plain assignment / iteration, or returned by a jinns callee that may return it;
  FRESH : a new object — display, comprehension, arithmetic, lambda, a library call (jax, jnp, equinox, builtins are
          assumed to return fresh objects; `dict(x)`, `list(x)`, ... are shallow: their content keeps x's content).
A frame obligation is violated by a store through a subscript / attribute, an augmented assignment to one, a `del`, or a
mutating method call whose base has self-provenance ARG (constructors may assign `self.<field>`).
The analysis is flow-insensitive per function and uses callee summaries (provenance of the returned value) computed to a
fixpoint over the cone, so it is modular: a caller sees only the summary of a callee.
"""
from __future__ import annotations
import ast
import os

FRESH, ARG = 0, 1
MUTATORS = {"update", "append", "extend", "pop", "popitem", "setdefault", "insert", "clear", "remove", "sort",
            "reverse", "__setitem__", "__delitem__", "add", "discard"}
SHALLOW = {"dict", "list", "tuple", "set", "sorted", "zip", "enumerate", "reversed", "iter", "next", "frozenset"}
CTOR = {"__init__", "__post_init__"}


def join(a, b):
    return (max(a[0], b[0]), max(a[1], b[1]))


class Func:
    def __init__(self, mod, cls, node, path):
        self.mod, self.cls, self.node, self.path = mod, cls, node, path
        self.qual = f"{mod}:{cls + '.' if cls else ''}{node.name}"
        self.ret = (FRESH, FRESH)
        self.findings = []
        self.calls = set()


class FrameChecker:
    def __init__(self, root=None, pkg="jinns"):
        from vf.paths import REPO
        root = root or (REPO + "/jinns")
        self.funcs, self.by_name, self.bases, self.imports, self.classes = {}, {}, {}, {}, {}
        self.module_state = {}
        for dp, _, files in os.walk(root):
            for f in files:
                if not f.endswith(".py"):
                    continue
                path = os.path.join(dp, f)
                rel = os.path.relpath(path, os.path.dirname(root))[:-3].replace(os.sep, ".")
                if rel.endswith(".__init__"):
                    rel = rel[:-9]
                try:
                    tree = ast.parse(open(path).read())
                except SyntaxError:
                    continue
                self.imports[rel] = {}
                self.module_state.setdefault(rel, {})
                for node in tree.body:
                    # module-level mutable containers (a function writing to one makes later results depend on the call history)
                    if isinstance(node, (ast.Assign, ast.AnnAssign)) and getattr(node, "value", None) is not None:
                        v = node.value
                        mutable = isinstance(v, (ast.Dict, ast.List, ast.Set, ast.DictComp, ast.ListComp, ast.SetComp)) or (
                            isinstance(v, ast.Call) and isinstance(v.func, ast.Name) and v.func.id in ("dict", "list", "set", "defaultdict", "OrderedDict"))
                        if mutable:
                            for t in (node.targets if isinstance(node, ast.Assign) else [node.target]):
                                if isinstance(t, ast.Name):
                                    self.module_state[rel][t.id] = node.lineno
                    if isinstance(node, ast.ImportFrom) and node.module and node.module.startswith(pkg):
                        for a in node.names:
                            self.imports[rel][a.asname or a.name] = node.module
                    if isinstance(node, ast.FunctionDef):
                        self._add(Func(rel, None, node, path))
                    if isinstance(node, ast.ClassDef):
                        self.classes[node.name] = rel
                        self.bases[node.name] = [b.id if isinstance(b, ast.Name) else getattr(b, "attr", "") for b in node.bases]
                        for sub in node.body:
                            if isinstance(sub, ast.FunctionDef):
                                self._add(Func(rel, node.name, sub, path))

    def _add(self, f):
        self.funcs[f.qual] = f
        self.by_name.setdefault(f.node.name, []).append(f.qual)

    # ---- resolution
    def method(self, cls, name):
        seen = set()
        stack = [cls]
        while stack:
            c = stack.pop(0)
            if c in seen or c not in self.classes:
                continue
            seen.add(c)
            q = f"{self.classes[c]}:{c}.{name}"
            if q in self.funcs:
                return q
            stack += self.bases.get(c, [])
        return None

    def subclasses_methods(self, cls, name):
        out = []
        for c in self.classes:
            chain, stack = set(), [c]
            while stack:
                x = stack.pop()
                if x in chain:
                    continue
                chain.add(x)
                stack += self.bases.get(x, [])
            if cls in chain:
                q = self.method(c, name)
                if q:
                    out.append(q)
        return out

    def resolve_name(self, f, name):
        q = f"{f.mod}:{name}"
        if q in self.funcs:
            return [q]
        src = self.imports.get(f.mod, {}).get(name)
        if src:
            q = f"{src}:{name}"
            if q in self.funcs:
                return [q]
            # re-export through a package __init__
            for cand in self.by_name.get(name, []):
                if self.funcs[cand].cls is None:
                    return [cand]
        if name in self.classes:        # constructor call
            return [q for q in (self.method(name, "__post_init__"), self.method(name, "__init__")) if q]
        return []

    def resolve_call(self, f, call):
        fn = call.func if isinstance(call, ast.Call) else call
        if isinstance(fn, ast.Name):
            return self.resolve_name(f, fn.id)
        if isinstance(fn, ast.Attribute):
            v = fn.value
            if isinstance(v, ast.Name) and v.id == "self" and f.cls:
                q = self.method(f.cls, fn.attr)
                # dynamic dispatch: overriding methods of subclasses too
                return list(dict.fromkeys(([q] if q else []) + self.subclasses_methods(f.cls, fn.attr)))
            if isinstance(v, ast.Call) and isinstance(v.func, ast.Name) and v.func.id == "super" and f.cls:
                for b in self.bases.get(f.cls, []):
                    q = self.method(b, fn.attr)
                    if q:
                        return [q]
                return []
            if fn.attr in self.by_name and fn.attr not in MUTATORS:
                return [q for q in self.by_name[fn.attr] if self.funcs[q].cls is not None]
        return []

    # ---- per-function analysis
    def analyze(self, f: Func):
        node = f.node
        env = {}
        ctor = node.name in CTOR

        def params_of(fn):
            a = fn.args
            return [x.arg for x in a.posonlyargs + a.args + a.kwonlyargs] + ([a.vararg.arg] if a.vararg else []) + ([a.kwarg.arg] if a.kwarg else [])

        for p in params_of(node):
            env[p] = (ARG, ARG)
        nested = [n for n in ast.walk(node) if isinstance(n, (ast.FunctionDef, ast.Lambda)) and n is not node]
        for n in nested:
            for p in params_of(n):
                env[p] = join(env.get(p, (FRESH, FRESH)), (ARG, ARG))

        def prov(e):
            if e is None:
                return (FRESH, FRESH)
            if isinstance(e, ast.Name):
                return env.get(e.id, (FRESH, FRESH))
            if isinstance(e, (ast.Attribute, ast.Subscript)):
                c = prov(e.value)[1]
                return (c, c)
            if isinstance(e, ast.Starred):
                return prov(e.value)
            if isinstance(e, (ast.Dict,)):
                c = (FRESH, FRESH)
                for v in list(e.values) + [k for k in e.keys if k is not None]:
                    c = join(c, prov(v))
                return (FRESH, max(c))
            if isinstance(e, (ast.List, ast.Tuple, ast.Set)):
                c = (FRESH, FRESH)
                for v in e.elts:
                    c = join(c, prov(v))
                return (FRESH, max(c))
            if isinstance(e, (ast.ListComp, ast.SetComp, ast.GeneratorExp)):
                bind_comprehension(e)
                return (FRESH, max(prov(e.elt)))
            if isinstance(e, ast.DictComp):
                bind_comprehension(e)
                return (FRESH, max(join(prov(e.key), prov(e.value))))
            if isinstance(e, ast.IfExp):
                return join(prov(e.body), prov(e.orelse))
            if isinstance(e, ast.BoolOp):
                c = (FRESH, FRESH)
                for v in e.values:
                    c = join(c, prov(v))
                return c
            if isinstance(e, ast.NamedExpr):
                p = prov(e.value)
                env[e.target.id] = join(env.get(e.target.id, (FRESH, FRESH)), p)
                return p
            if isinstance(e, ast.Call):
                targets = self.resolve_call(f, e)
                args = list(e.args) + [k.value for k in e.keywords]
                argp = (FRESH, FRESH)
                for a in args:
                    argp = join(argp, prov(a))
                if isinstance(e.func, ast.Attribute):
                    argp = join(argp, prov(e.func.value))
                if targets:
                    r = (FRESH, FRESH)
                    for q in targets:
                        f.calls.add(q)
                        r = join(r, self.funcs[q].ret)
                    # a callee can only return an argument-owned object if it was given one
                    return (min(r[0], max(argp)), min(r[1], max(argp)))
                if isinstance(e.func, ast.Name) and e.func.id in SHALLOW:
                    return (FRESH, max(argp))
                if isinstance(e.func, ast.Attribute) and e.func.attr in ("items", "values", "keys", "get", "copy"):
                    c = prov(e.func.value)[1]
                    return (FRESH if e.func.attr != "get" else c, c)
                return (FRESH, FRESH)           # library call: assumed to return a fresh object
            return (FRESH, FRESH)               # constants, arithmetic, comparisons, lambdas, f-strings

        def bind_target(t, p):
            if isinstance(t, ast.Name):
                env[t.id] = join(env.get(t.id, (FRESH, FRESH)), p)
            elif isinstance(t, (ast.Tuple, ast.List)):
                for x in t.elts:
                    bind_target(x.value if isinstance(x, ast.Starred) else x, (p[1], p[1]))

        def bind_comprehension(e):
            for g in e.generators:
                p = prov(g.iter)
                bind_target(g.target, (p[1], p[1]))

        def walk_bind(n):
            for s in ast.walk(n):
                if isinstance(s, ast.Assign):
                    p = prov(s.value)
                    for t in s.targets:
                        if isinstance(t, (ast.Name, ast.Tuple, ast.List)):
                            if isinstance(t, ast.Name):
                                bind_target(t, p)
                            elif isinstance(s.value, (ast.Tuple, ast.List)) and len(s.value.elts) == len(t.elts):
                                for tt, vv in zip(t.elts, s.value.elts):
                                    bind_target(tt, prov(vv))
                            else:
                                bind_target(t, p)
                elif isinstance(s, ast.AnnAssign) and s.value is not None and isinstance(s.target, ast.Name):
                    bind_target(s.target, prov(s.value))
                elif isinstance(s, ast.AugAssign) and isinstance(s.target, ast.Name):
                    bind_target(s.target, prov(s.value))
                elif isinstance(s, (ast.For, ast.AsyncFor)):
                    p = prov(s.iter)
                    bind_target(s.target, (p[1], p[1]))
                elif isinstance(s, ast.With):
                    for it in s.items:
                        if it.optional_vars is not None:
                            bind_target(it.optional_vars, prov(it.context_expr))

        for _ in range(4):          # flow-insensitive fixpoint
            before = dict(env)
            walk_bind(node)
            if env == before:
                break

        findings = []
        local_names = set(env)
        for s_ in ast.walk(node):
            if isinstance(s_, ast.Global):
                local_names -= set(s_.names)
        gstate = self.module_state.get(f.mod, {})

        def flag(n, base, what):
            if ctor and isinstance(base, ast.Name) and base.id == "self" and what == "attribute store":
                return
            if isinstance(base, ast.Name) and base.id in gstate and base.id not in local_names:
                findings.append((n.lineno, "write to module-level state `" + base.id + "` (" + what + ")",
                                 ast.unparse(n).split("\n")[0][:120]))
                return
            if prov(base)[0] == ARG:
                findings.append((n.lineno, what, ast.unparse(n).split("\n")[0][:120]))

        for s in ast.walk(node):
            if isinstance(s, (ast.Assign, ast.AugAssign, ast.AnnAssign)):
                tg = s.targets if isinstance(s, ast.Assign) else [s.target]
                for t in tg:
                    for x in (t.elts if isinstance(t, (ast.Tuple, ast.List)) else [t]):
                        if isinstance(x, ast.Subscript):
                            flag(s, x.value, "subscript store")
                        elif isinstance(x, ast.Attribute):
                            flag(s, x.value, "attribute store")
                if isinstance(s, ast.AugAssign) and isinstance(s.target, ast.Name):
                    # x += [..] mutates a list in place
                    if prov(s.target)[0] == ARG and isinstance(s.value, (ast.List, ast.ListComp)):
                        findings.append((s.lineno, "in-place list extension", ast.unparse(s)[:120]))
                    elif prov(s.target)[0] == ARG:
                        # `y = arg.field; y += k` rebinds y for Python numbers, jax arrays and tracers, but updates the
                        # argument's own buffer when the field holds a mutable array (a NumPy leaf of a restored state)
                        findings.append((s.lineno, "augmented assignment on an alias of an argument (in place for a mutable array)",
                                         ast.unparse(s)[:120]))
            elif isinstance(s, ast.Delete):
                for x in s.targets:
                    if isinstance(x, (ast.Subscript, ast.Attribute)):
                        flag(s, x.value, "del")
            elif isinstance(s, ast.Call) and isinstance(s.func, ast.Attribute) and s.func.attr in MUTATORS:
                flag(s, s.func.value, f"mutating call .{s.func.attr}()")
            elif isinstance(s, ast.Call):
                prov(s)     # records call edges
            # references to functions passed as values (tree_map(f, ..), cond(p, f, g, ..)) are potential calls
            if isinstance(s, ast.Call):
                for a in list(s.args) + [k.value for k in s.keywords]:
                    if isinstance(a, (ast.Name, ast.Attribute)):
                        for q in self.resolve_call(f, a):
                            f.calls.add(q)
        ret = (FRESH, FRESH)
        for s in ast.walk(node):
            if isinstance(s, ast.Return) and s.value is not None:
                ret = join(ret, prov(s.value))
        f.findings = sorted(set(findings))
        changed = ret != f.ret
        f.ret = ret
        return changed

    def cone(self, entries):
        todo, seen = list(entries), []
        while todo:
            q = todo.pop(0)
            if q in seen or q not in self.funcs:
                continue
            seen.append(q)
            self.analyze(self.funcs[q])
            todo += sorted(self.funcs[q].calls)
        for _ in range(6):          # summaries to a fixpoint
            ch = False
            for q in list(seen):
                ch |= self.analyze(self.funcs[q])
                for c in sorted(self.funcs[q].calls):
                    if c not in seen and c in self.funcs:
                        seen.append(c)
                        ch = True
            if not ch:
                break
        return seen
