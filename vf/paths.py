"""Location of the code under contract.  Always /repo for the registered checks; the VERIF_REPO override exists only for
the tooling that tries seeded changes in scratch worktrees in parallel (tools/par_mutants.sh): with it set, no evidence is
written."""
import os

REPO = os.environ.get("VERIF_REPO", "/repo").rstrip("/")
OVERRIDDEN = REPO != "/repo"


def R(path: str) -> str:
    """map a /repo/... path to the repository actually under contract"""
    return REPO + path[len("/repo"):] if path.startswith("/repo") else path
