"""
Obligations of Engine B: `pre => impl == spec` between the symbolic value of the real code
(traced from /repo on every run) and the contract's postcondition, discharged by ring
normalisation and z3 (cvc5 for z3's unknowns), with vacuity canaries, an interpreter
cross-check against native JAX execution, and native replay of every refutation.
"""
from __future__ import annotations
import dataclasses
import hashlib
import json
import math
import os
import time
import traceback
import zlib
import numpy as np
import jax
import jax.numpy as jnp

from . import poly as P
from .paths import REPO as _REPO
from .poly import Poly
from . import jxinterp as JI
from . import smt
from .opaque import concrete, registry

VERIF = os.path.dirname(os.path.dirname(os.path.abspath(__file__)))


class LineCov:
    """python line coverage of /repo/jinns while the real code is being traced (reported as uncovered_lines in the evidence)"""

    def __init__(self):
        self.lines = {}
        self.cov = None

    def __enter__(self):
        try:
            import coverage
            self.cov = coverage.Coverage(data_file=None, include=[_REPO + "/jinns/*"], config_file=False)
            self.cov.start()
        except Exception:
            self.cov = None
        return self

    def __exit__(self, *a):
        if self.cov is not None:
            try:
                self.cov.stop()
                d = self.cov.get_data()
                for f in d.measured_files():
                    self.lines[f] = sorted(d.lines(f) or [])
            except Exception:
                pass
        return False


def _merge_lines(res, lines):
    cur = res.setdefault("lines", {})
    for f, ls in lines.items():
        cur[f] = sorted(set(cur.get(f, [])) | set(ls))
REPLAYS = os.environ.get("VERIF_REPLAYS") or os.path.join(VERIF, "replays")


@dataclasses.dataclass
class Inp:
    name: str
    shape: tuple
    kind: str = "real"        # real | pos | bool | unit (in (0,1)) | int
    lo: float = -1.5
    hi: float = 1.5
    dtype: object = None      # dtype of the traced argument (default float64 / bool / int64 by kind)

    def example(self):
        dt = self.dtype or {"bool": np.bool_, "int": np.int64}.get(self.kind, np.float64)
        return np.zeros(tuple(self.shape), dtype=dt)


def _is_leaf(x):
    return isinstance(x, np.ndarray) and x.dtype == object


def flatten_out(tree):
    leaves = jax.tree_util.tree_leaves(tree, is_leaf=lambda x: _is_leaf(x) or isinstance(x, Poly))
    out = []
    for l in leaves:
        if isinstance(l, Poly):
            a = np.empty((), dtype=object)
            a[()] = l
            out.append(a)
        else:
            out.append(JI.fix_obj(l) if _is_leaf(l) else JI.to_obj(np.asarray(l)))
    return out


class Valuation:
    """numeric values for input symbols + concrete family for opaque functions"""

    def __init__(self, inputs, seed, model=None):
        self.seed = int(seed)
        rng = np.random.default_rng(self.seed * 1000003 + 17)
        self.values = {}
        self.arrays = []
        model = model or {}
        for inp in inputs:
            shape = tuple(inp.shape)
            if inp.kind == "bool":
                arr = rng.integers(0, 2, size=shape).astype(bool)
            elif inp.kind == "int":
                arr = rng.integers(0, 4, size=shape).astype(inp.dtype or np.int64)
            elif inp.kind == "pos":
                arr = rng.uniform(0.5, 2.0, size=shape)
            elif inp.kind == "unit":
                arr = rng.uniform(0.1, 0.9, size=shape)
            else:
                arr = rng.uniform(inp.lo, inp.hi, size=shape)
                arr = np.where(np.abs(arr) < 0.05, 0.3, arr)
            arr = np.asarray(arr)
            if arr.ndim == 0:
                nm = inp.name
                if nm in model:
                    arr = np.asarray(bool(model[nm] != 0) if inp.kind == "bool" else float(model[nm]))
                self.values[nm] = float(arr)
            else:
                arr = arr.copy()
                for idx in np.ndindex(*shape):
                    nm = inp.name + "[" + ",".join(map(str, idx)) + "]"
                    if nm in model and math.isfinite(model[nm]) and abs(model[nm]) < 1e6:
                        arr[idx] = bool(model[nm] != 0) if inp.kind == "bool" else float(model[nm])
                    self.values[nm] = float(arr[idx])
            self.arrays.append(arr)
        self._dcache = {}

    def __call__(self, a):
        k = a.key
        if k[0] in ("sym", "bool"):
            return self.values[k[1]]
        if k[0] == "app":
            _, fname, j, derivs, args = k
            y = tuple(P.evaluate(P.poly_from_key(x), self) for x in args)
            ck = (fname, len(derivs), y)
            d = self._dcache.get(ck)
            if d is None:
                from .opaque import concrete as _conc
                with _conc(self.seed, getattr(self, "scale", 1.0)):
                    d = registry()[fname].deriv_value(self.seed, len(derivs), np.asarray(y))
                self._dcache[ck] = d
            return float(d[(j,) + tuple(derivs)])
        raise KeyError(f"no numeric value for atom {a}")


def numeric(polys, val):
    cache = {}
    return [np.asarray([P.evaluate(p, val, cache) for p in a.reshape(-1)]).reshape(a.shape) for a in polys]


def close(a, b, rtol=1e-7, atol=1e-9):
    a, b = np.asarray(a, dtype=float), np.asarray(b, dtype=float)
    if a.shape != b.shape:
        return False
    both_nan = np.isnan(a) & np.isnan(b)
    with np.errstate(invalid="ignore"):
        ok = np.abs(a - b) <= atol + rtol * np.maximum(np.abs(a), np.abs(b))
    return bool(np.all(ok | both_nan))


def special_valuations(inputs, polys, seed):
    """targeted valuations for refutations that random inputs cannot reach:
    (a) one NaN entry in a multi-element (or any) real input when the obligation mentions isnan;
    (b) boundary values: an input symbol occurring linearly in a comparison lt(d) / eq(d) is moved so that d == 0 (a tie)"""
    out = []
    atoms = set()
    for arrp in polys:
        for p in arrp.reshape(-1):
            atoms |= p.all_atoms()
    kinds = {P.atom_by_id(i).key[1] for i in atoms if P.atom_by_id(i).kind == "fn"}
    base = Valuation(inputs, seed + 7)
    for pred, bad in (("isnan", float("nan")), ("isinf", float("inf"))):
        if pred not in kinds:
            continue
        for k, inp in enumerate(inputs):
            if inp.kind == "real" and int(np.prod(inp.shape or (1,))) >= 1:
                v = Valuation(inputs, seed + 7)
                a = np.array(v.arrays[k], dtype=float, copy=True)
                a.reshape(-1)[0] = bad
                v.arrays[k] = a
                nm = inp.name if a.ndim == 0 else inp.name + "[" + ",".join(["0"] * a.ndim) + "]"
                v.values[nm] = bad
                out.append(v)
    if kinds & {"lt", "eq"}:
        names = {}
        for k, inp in enumerate(inputs):
            if inp.kind in ("real", "pos"):
                for idx in (np.ndindex(*inp.shape) if inp.shape else [()]):
                    nm = inp.name if not inp.shape else inp.name + "[" + ",".join(map(str, idx)) + "]"
                    names[nm] = (k, idx)
        seen = 0
        for i in sorted(atoms):
            a = P.atom_by_id(i)
            if a.kind != "fn" or a.key[1] not in ("lt", "eq"):
                continue
            d = P.poly_from_key(a.key[2][0])
            for m, cf in d.terms.items():
                if len(m) == 1 and m[0][1] == 1 and P.atom_by_id(m[0][0]).kind == "sym":
                    nm = P.atom_by_id(m[0][0]).key[1]
                    if nm not in names or seen >= 6:
                        continue
                    try:
                        dv = P.evaluate(d, base)
                    except Exception:
                        continue
                    v = Valuation(inputs, seed + 7)
                    k, idx = names[nm]
                    arr_ = np.array(v.arrays[k], dtype=float, copy=True)
                    newval = float(arr_[idx] if idx != () else arr_) - dv / float(cf)
                    if idx == ():
                        arr_ = np.asarray(newval)
                    else:
                        arr_[idx] = newval
                    v.arrays[k] = arr_
                    v.values[nm] = newval
                    out.append(v)
                    seen += 1
    return out


class Result(dict):
    pass


def _defined_at(it, val):
    try:
        nz = numeric([np.array(it.nonzero, dtype=object)], val)[0] if it.nonzero else np.ones(1)
        nn = numeric([np.array(it.nonneg, dtype=object)], val)[0] if it.nonneg else np.ones(1)
        return bool(np.all(np.isfinite(nz)) and np.all(nz != 0) and np.all(np.isfinite(nn)) and np.all(nn >= 0))
    except Exception:
        return False


class Obligation:
    name: str

    def run(self, seed=0) -> Result:
        raise NotImplementedError


class EqObligation(Obligation):
    """
    build() -> dict(
        fn      = real-code closure over arrays (the function under contract, called as users call it),
        inputs  = [Inp...],
        spec    = function of the symbolic input arrays returning the expected result (same pytree),
        canary  = (optional) deliberately wrong spec that must be refuted,
        pre     = (optional) list of callables lowering -> z3 constraint,
        functions = names of the /repo functions covered)
    """

    def __init__(self, name, build, functions=()):
        self.name = name
        self.build = build
        self.functions = tuple(functions)

    def run(self, seed=0):
        t0 = time.time()
        res = Result(name=self.name, kind="eq", functions=list(self.functions), status="error", backend=None,
                     detail="", time_s=0.0, solver_s=0.0, canary=None, crosscheck=None)
        try:
            self._run(res, seed)
        except JI.Unsupported as e:
            res["status"] = "undecided"
            res["detail"] = f"unsupported: {e}"
        except Exception as e:      # checker crash
            res["status"] = "error"
            res["detail"] = "checker exception: " + "".join(traceback.format_exception_only(type(e), e)).strip() \
                + "\n" + traceback.format_exc(limit=8)
        res["time_s"] = time.time() - t0
        return res

    def _run(self, res, seed):
        try:
            with LineCov() as lc0:              # constructors / factory functions of /repo run while the scenario is built
                b = self.build()
        except JI.Unsupported:
            raise
        except Exception as e:
            # the scenario is built with concrete, admissible data (as users build their objects, outside any trace): a
            # constructor of /repo that raises on it violates the contract's "for all configurations" natively
            if _from_checker(e):
                raise
            msg = "".join(traceback.format_exception_only(type(e), e)).strip()
            where = traceback.extract_tb(e.__traceback__)[-1]
            res["status"] = "violated"
            res["failure"] = "raises"
            res["detail"] = (f"building the scenario (constructing the objects of the real code with admissible concrete data) raises: {msg[:400]} "
                             f"[{where.filename}:{where.lineno}]")
            res["replay"] = {"obligation": self.name, "native_disagrees": True, "native": "raises " + msg[:300],
                             "expected": "the object is constructed", "inputs": "the concrete stand-in data of the scenario (see the obligation's contract)"}
            return
        _merge_lines(res, lc0.lines)
        fn, inputs, spec = b["fn"], b["inputs"], b["spec"]
        res["functions"] = list(b.get("functions", self.functions))
        syms = [JI.sym_input(i.name, tuple(i.shape), "bool" if i.kind == "bool" else "real") for i in inputs]
        pre = list(b.get("pre", []))
        for i, s in zip(inputs, syms):
            if i.kind in ("pos", "unit"):
                for e in s.reshape(-1):
                    pre.append(lambda low, e=e: low.poly(e) > 0)
        # 1. symbolic value of the real code
        try:
            with LineCov() as lc:
                impl, it = JI.run_symbolic(fn, tuple(syms), example_args=tuple(i.example() for i in inputs))
            _merge_lines(res, lc.lines)
        except JI.Unsupported:
            raise
        except Exception as e:
            if _from_checker(e):
                raise
            res["status"] = "violated"
            res["detail"] = ("the function raises under the contract's precondition: "
                             + "".join(traceback.format_exception_only(type(e), e)).strip())
            res["failure"] = "raises"
            self._replay_raises(res, b, seed)
            return
        res["n_eqns"] = it.n_eqns
        res["prims"] = it.prims_seen
        impl_l = flatten_out(impl)
        try:
            spec_l = flatten_out(spec(*syms))
        except JI.Unsupported:
            raise
        except Exception as e:
            # contracts whose right-hand side is itself a run of the real code (mode equivalence: eager vs jit)
            if _from_checker(e):
                raise
            res["status"] = "violated"
            res["failure"] = "raises"
            res["detail"] = ("the reference evaluation of the real code (the contract's right-hand side) raises under the precondition: "
                             + "".join(traceback.format_exception_only(type(e), e)).strip()[:400])
            self._replay_raises(res, b, seed)
            if not res["replay"].get("native_disagrees"):
                res["replay"].update(native_disagrees=True, native="the eager evaluation raises " + type(e).__name__,
                                     expected="the same value in every mode")
            return
        res["sample"] = _sample(impl_l)
        # 2. interpreter cross-check against native execution (trusted-base sanity, every run)
        self._crosscheck(res, b, impl_l, seed, it)
        if res["crosscheck"] == "mismatch":
            # triage: is it the interpreter, or does the code compute something else when it is traced than when it runs
            # eagerly (a branch on `isinstance(x, Tracer)`, on a Python type that tracing changes, ...)?  JAX's own
            # evaluation of the traced program decides: if it agrees with the interpreter, the interpreter is right and
            # the eager run of the real code is compared with the contract directly.
            tri = self._eager_vs_traced(b, impl_l, spec_l, seed, it)
            if tri is None:
                res["status"] = "error"
                return
            res["crosscheck"] = "ok (against JAX's own evaluation of the traced program); the eager run differs"
            if tri.get("native_disagrees"):
                res["status"] = "violated"
                res["failure"] = "eager run differs from the traced program and from the contract"
                res["detail"] = ("run eagerly on concrete inputs the code does not compute what it computes when traced, and the eager "
                                 f"value violates the contract: native {tri['native']} expected {tri['expected']}")
                res["replay"] = dict(tri, obligation=self.name)
                return
        # 3. shapes
        if len(impl_l) != len(spec_l) or any(a.shape != s.shape for a, s in zip(impl_l, spec_l)):
            res["status"] = "violated"
            res["failure"] = "shape"
            res["detail"] = (f"result structure differs: impl {[a.shape for a in impl_l]} "
                             f"vs contract {[s.shape for s in spec_l]}")
            self._replay(res, b, spec, None, seed)
            return
        # 3b. definedness: every division / square root the code performs is either performed by the contract too
        #     (same partiality) or proved defined under the precondition
        if not self._definedness(res, b, spec, spec_l, it, pre, seed):
            return
        # 4. ring normal form, then SMT
        diff = [(a, s) for A, S in zip(impl_l, spec_l) for a, s in zip(A.reshape(-1), S.reshape(-1)) if a != s]
        n = sum(a.size for a in impl_l)
        res["n_elems"] = n
        if not diff:
            res["status"] = "discharged"
            res["backend"] = "ring"
            if b.get("smt_confirm", True) and n <= 64:
                pairs = [(a, s) for A, S in zip(impl_l, spec_l) for a, s in zip(A.reshape(-1), S.reshape(-1))]
                r = smt.check_valid(pairs, pre, it.nonzero, it.nonneg, timeout_ms=3000)
                res["solver_s"] += r["time_s"]
                if r["status"] == "sat":
                    res["status"] = "error"
                    res["detail"] = "back ends disagree: ring says equal, SMT gives a counter-model"
                    return
                if r["status"] == "unsat":
                    res["backend"] = "ring+" + r["backend"]
        else:
            r = smt.check_valid(diff[:40], pre, it.nonzero, it.nonneg, timeout_ms=int(b.get("timeout_ms", 10000)))
            res["solver_s"] += r["time_s"]
            if r["status"] == "unsat" and len(diff) > 40:
                r2 = smt.check_valid(diff[40:], pre, it.nonzero, it.nonneg, timeout_ms=20000)
                res["solver_s"] += r2["time_s"]
                r = r2 if r2["status"] != "unsat" else r
            if r["status"] == "unsat":
                res["status"] = "discharged"
                res["backend"] = r["backend"]
            elif r["status"] == "sat":
                res["status"] = "violated"
                res["failure"] = "value"
                a, s = diff[0]
                res["detail"] = f"impl != contract, e.g. impl = {_cut(a)} ; contract = {_cut(s)} ; impl - contract = {_cut(a - s)}"
                self._replay(res, b, spec, r["model"], seed)
                return
            else:
                # undecided by both solvers: try to refute natively; otherwise undecided
                self._replay(res, b, spec, None, seed)
                if res.get("replay", {}).get("native_disagrees"):
                    res["status"] = "violated"
                    res["failure"] = "value"
                    a, s = diff[0]
                    res["detail"] = f"solvers undecided; native counterexample found; impl - contract = {_cut(a - s)}"
                else:
                    res["status"] = "undecided"
                    res["detail"] = "ring normal forms differ and z3/cvc5 returned unknown"
                    res.pop("replay", None)
                return
        # 4b. opt-in probe with non-finite inputs (bounded): the proof is over the reals; with a NaN in a named input the
        #     real code must still agree with the contract evaluated with IEEE comparisons (false on NaN) and select semantics
        for nm in b.get("probe_nonfinite", ()):
            if res["status"] != "discharged":
                break
            try:
                k = [i.name for i in inputs].index(nm)
                val = Valuation(inputs, seed + 5)
                a_ = np.array(val.arrays[k], dtype=float, copy=True)
                a_.reshape(-1)[0] = np.nan
                val.arrays[k] = a_
                key = nm if a_.ndim == 0 else nm + "[" + ",".join(["0"] * a_.ndim) + "]"
                val.values[key] = float("nan")
                nat = self._native(b, val)
                if b.get("native_reference") is not None:
                    # contracts "this run of the real code == that run of the real code" (mode equivalence): both sides are
                    # run natively, so that 0 * NaN is what the machine makes of it on both sides
                    exp = self._native(dict(b, fn=b["native_reference"]), val)
                else:
                    exp = numeric(spec_l, val)
                res["nonfinite_probes"] = res.get("nonfinite_probes", 0) + 1
                if len(nat) != len(exp) or not all(close(x, y, 1e-6, 1e-8) for x, y in zip(nat, exp)):
                    res["status"] = "violated"
                    res["failure"] = "non-finite input"
                    res["detail"] = (f"proved over the reals, but with a NaN in input `{nm}` the code and the contract disagree "
                                     f"(comparisons are false on NaN; a false condition selects the other branch)")
                    res["replay"] = {"obligation": self.name, "native_disagrees": True, "seed": val.seed, "inputs": _inputs(b, val),
                                     "special": f"NaN in {key}", "native": [_arr(x) for x in nat], "expected": [_arr(x) for x in exp]}
                    return
            except Exception as e:
                res["nonfinite_probe_error"] = str(e)[:200]
        # 5. vacuity canary
        can = b.get("canary")
        if can is not None:
            can_l = flatten_out(can(*syms))
            cd = [(a, s) for A, S in zip(impl_l, can_l) for a, s in zip(A.reshape(-1), S.reshape(-1)) if a != s]
            if len(can_l) != len(impl_l):
                res["canary"] = "refuted"
            elif not cd:
                res["canary"] = "verified"
            else:
                r = smt.check_valid(cd[:10], pre, it.nonzero, it.nonneg, timeout_ms=5000)
                res["solver_s"] += r["time_s"]
                res["canary"] = "refuted" if r["status"] == "sat" else ("verified" if r["status"] == "unsat" else "ring-differs")
            if res["canary"] == "verified":
                res["status"] = "error"
                res["detail"] = "vacuity guard: the deliberately wrong postcondition verified"

    def _definedness(self, res, b, spec, spec_l, it, pre, seed):
        import z3
        sdom = P.dom_conditions([q for S in spec_l for q in S.reshape(-1)])
        skeys = {P.norm_cond(k, q) for k, q in sdom}
        need, seenk = [], set()
        for k, q in [("nz", q) for q in it.nonzero] + [("nn", q) for q in it.nonneg]:
            if q.is_const():
                continue
            nk = P.norm_cond(k, q)
            if nk in skeys or nk in seenk:
                continue
            seenk.add(nk)
            need.append((k, q))
        res["definedness"] = {"shared_with_contract": len(skeys), "to_prove": len(need), "proved": 0}
        if not need:
            return True
        t0 = time.time()
        low = smt.Lowering()
        neg = [(low.poly(q) == 0) if k == "nz" else (low.poly(q) < 0) for k, q in need]
        assum = [(p(low) if callable(p) else p) for p in pre]
        assum += [(low.poly(q) != 0) if k == "nz" else (low.poly(q) >= 0) for k, q in sdom]
        # conditions proved earlier in program order may be used for the later ones (the earlier failure is reported first)
        s = z3.Solver()
        s.set("timeout", 8000)
        for a in assum + low.side:
            s.add(a)
        s.add(z3.Or(neg))
        r = s.check()
        res["solver_s"] += time.time() - t0
        if r == z3.unsat:
            res["definedness"]["proved"] = len(need)
            return True
        bad = need[0]
        model = None
        if r == z3.sat:
            model = smt._model(s.model(), low)
        kind = {"nz": "a division by", "nn": "a square root / logarithm of"}[bad[0]]
        if r != z3.sat:
            res["definedness"]["undecided"] = len(need)
        self._replay(res, b, spec, model, seed)
        if res.get("replay", {}).get("native_disagrees"):
            res["status"] = "violated"
            res["failure"] = "definedness"
            res["detail"] = (f"the code performs {kind} a quantity that the precondition does not keep "
                             f"{'non-zero' if bad[0] == 'nz' else 'non-negative'} and the contract's value does not involve: {_cut(bad[1])}")
            return False
        res.pop("replay", None)
        if r == z3.sat:
            # a counter-model exists but the real code agrees with the contract there (e.g. 0/0 guarded by a select)
            res["definedness"]["not_reproduced"] = len(need)
        return True

    # -- native execution helpers
    def _native(self, b, val):
        import contextlib, io
        arrays = [jnp.asarray(a, dtype=i.example().dtype) for a, i in zip(val.arrays, b["inputs"])]
        with concrete(val.seed, getattr(val, "scale", 1.0)), contextlib.redirect_stdout(io.StringIO()):      # the code's own progress prints are not ours
            out = b["fn"](*arrays)
            out = [np.asarray(x, dtype=float) for x in jax.tree_util.tree_leaves(out)]
            try:
                jax.effects_barrier()
            except Exception:
                pass
        return out

    def _crosscheck(self, res, b, impl_l, seed, it=None):
        try:
            # sample inside the code's own domain of definedness (its divisions / square roots); whether that domain
            # is as large as the contract's is the definedness obligation's business, not the cross-check's
            for k in range(6):
                val = Valuation(b["inputs"], seed + 1 + 977 * k)
                if it is None or _defined_at(it, val):
                    break
            else:
                res["crosscheck"] = "skipped: no sampled valuation inside the code's domain of definedness"
                return
            nat = self._native(b, val)
            sym = numeric(impl_l, val)
            ok = len(nat) == len(sym) and all(close(x, y, 1e-6, 1e-8) for x, y in zip(nat, sym))
            res["crosscheck"] = "ok" if ok else "mismatch"
            if not ok:
                res["detail"] = (f"interpreter cross-check failed: native {[_arr(x) for x in nat]} "
                                 f"vs symbolic {[_arr(x) for x in sym]}")
        except Exception as e:
            res["crosscheck"] = "skipped: " + "".join(traceback.format_exception_only(type(e), e)).strip()[:200]

    def _eager_vs_traced(self, b, impl_l, spec_l, seed, it):
        """None: the interpreter disagrees with JAX's own evaluation of the traced program (checker error).
        Otherwise a replay record: whether the eager run violates the contract at the sampled inputs."""
        try:
            import contextlib, io
            for k in range(6):
                val = Valuation(b["inputs"], seed + 1 + 977 * k)
                if it is None or _defined_at(it, val):
                    break
            arrays = [jnp.asarray(a, dtype=i.example().dtype) for a, i in zip(val.arrays, b["inputs"])]
            with concrete(val.seed, getattr(val, "scale", 1.0)), contextlib.redirect_stdout(io.StringIO()):
                closed = jax.make_jaxpr(b["fn"])(*arrays)
                traced = [np.asarray(x, dtype=float) for x in jax.core.eval_jaxpr(closed.jaxpr, closed.consts, *arrays)]
            sym = numeric(impl_l, val)
            if not (len(traced) == len(sym) and all(close(x, y, 1e-6, 1e-8) for x, y in zip(traced, sym))):
                return None
            nat = self._native(b, val)
            exp = numeric(spec_l, val)
            bad = len(nat) != len(exp) or not all(close(x, y, 1e-6, 1e-8) for x, y in zip(nat, exp))
            return dict(native_disagrees=bool(bad), seed=val.seed, inputs=_inputs(b, val), native=[_arr(x) for x in nat],
                        expected=[_arr(x) for x in exp], mode="eager (concrete inputs, no enclosing trace)")
        except Exception:
            return None

    def _replay(self, res, b, spec, model, seed):
        """turn the refutation into a concrete native run of the real code"""
        rec = {"obligation": self.name, "native_disagrees": False, "solver_model": _short_model(model)}
        tried = 0
        for k in range(6):
            val = Valuation(b["inputs"], seed + 101 * k, model if k == 0 else None)
            tried += 1
            try:
                nat = self._native(b, val)
            except Exception as e:
                rec.update(native_disagrees=True, seed=val.seed, inputs=_inputs(b, val),
                           native="raises " + "".join(traceback.format_exception_only(type(e), e)).strip(),
                           expected="a value (contract promises a result)")
                break
            syms = [JI.sym_input(i.name, tuple(i.shape), "bool" if i.kind == "bool" else "real") for i in b["inputs"]]
            try:
                exp = numeric(flatten_out(spec(*syms)), val)
            except Exception as e:
                rec["spec_eval_error"] = str(e)[:200]
                continue
            if len(nat) != len(exp) or not all(close(x, y, 1e-6, 1e-8) for x, y in zip(nat, exp)):
                rec.update(native_disagrees=True, seed=val.seed, inputs=_inputs(b, val),
                           native=[_arr(x) for x in nat], expected=[_arr(x) for x in exp])
                break
        if not rec["native_disagrees"]:
            try:
                syms = [JI.sym_input(i.name, tuple(i.shape), "bool" if i.kind == "bool" else "real") for i in b["inputs"]]
                spec_l = flatten_out(spec(*syms))
                impl_l = flatten_out(JI.run_symbolic(b["fn"], tuple(syms), example_args=tuple(i.example() for i in b["inputs"]))[0])
                for val in special_valuations(b["inputs"], spec_l + impl_l, seed):
                    tried += 1
                    nat = self._native(b, val)
                    exp = numeric(spec_l, val)
                    if len(nat) != len(exp) or not all(close(x, y, 1e-6, 1e-8) for x, y in zip(nat, exp)):
                        rec.update(native_disagrees=True, seed=val.seed, inputs=_inputs(b, val), special="NaN entry / comparison boundary",
                                   native=[_arr(x) for x in nat], expected=[_arr(x) for x in exp])
                        break
            except Exception as e:
                rec["special_valuation_error"] = str(e)[:200]
        if not rec["native_disagrees"]:
            # candidates of tiny / huge magnitude (comparisons of a network value with a constant)
            try:
                syms = [JI.sym_input(i.name, tuple(i.shape), "bool" if i.kind == "bool" else "real") for i in b["inputs"]]
                spec_l = flatten_out(spec(*syms))
                for scale in (1e-8, 1e-3, 1e4):
                    val = Valuation(b["inputs"], seed + 13)
                    val.scale = scale
                    tried += 1
                    nat = self._native(b, val)
                    exp = numeric(spec_l, val)
                    if len(nat) != len(exp) or not all(close(x, y, 1e-6, 1e-8) for x, y in zip(nat, exp)):
                        rec.update(native_disagrees=True, seed=val.seed, inputs=_inputs(b, val),
                                   special=f"uninterpreted functions instantiated with amplitude {scale}",
                                   native=[_arr(x) for x in nat], expected=[_arr(x) for x in exp])
                        break
            except Exception as e:
                rec["scaled_valuation_error"] = str(e)[:200]
        rec["valuations_tried"] = tried
        res["replay"] = rec

    def _replay_raises(self, res, b, seed):
        rec = {"obligation": self.name, "native_disagrees": False}
        val = Valuation(b["inputs"], seed)
        try:
            nat = self._native(b, val)
            rec["native"] = [_arr(x) for x in nat]
        except Exception as e:
            rec.update(native_disagrees=True, seed=val.seed, inputs=_inputs(b, val),
                       native="raises " + "".join(traceback.format_exception_only(type(e), e)).strip(),
                       expected="a value (contract promises a result)")
        res["replay"] = rec


class RaisesObligation(Obligation):
    """the contract says the call raises `exc` (a static-configuration clause)"""

    def __init__(self, name, build, exc, functions=()):
        self.name, self.build, self.exc, self.functions = name, build, exc, tuple(functions)

    def run(self, seed=0):
        t0 = time.time()
        res = Result(name=self.name, kind="raises", functions=list(self.functions), status="error",
                     backend="trace", detail="", solver_s=0.0, canary=None, crosscheck=None)
        try:
            b = self.build()
            syms = [JI.sym_input(i.name, tuple(i.shape)) for i in b["inputs"]]
            try:
                JI.run_symbolic(b["fn"], tuple(syms))
                res["status"] = "violated"
                res["failure"] = "no-raise"
                res["detail"] = f"expected {self.exc.__name__}, the call returned normally"
                res["replay"] = {"obligation": self.name, "native_disagrees": True,
                                 "native": "returns a value", "expected": f"raises {self.exc.__name__}"}
            except self.exc:
                res["status"] = "discharged"
            except JI.Unsupported as e:
                res["status"] = "undecided"
                res["detail"] = str(e)
        except Exception as e:
            res["detail"] = traceback.format_exc(limit=6)
        res["time_s"] = time.time() - t0
        return res


def _pyvc_unsupported():
    from . import pyvc
    return pyvc.Unsupported


def _pyvc_raise():
    from . import pyvc
    return pyvc.PyRaise


class FnObligation(Obligation):
    """an obligation decided by a custom procedure returning a Result-like dict"""

    def __init__(self, name, fn, functions=(), native_fallback=None):
        """native_fallback() -> witness or None: a bounded native search run only when the symbolic procedure meets a
        construct it cannot model (Unsupported).  A witness makes the obligation *violated* (replayed input on the real
        code); no witness leaves it undecided — an unmodelled construct is never reported as a violation by itself."""
        self.name, self.fn, self.functions = name, fn, tuple(functions)
        self.native_fallback = native_fallback

    def run(self, seed=0):
        t0 = time.time()
        res = Result(name=self.name, kind="custom", functions=list(self.functions), status="error", backend=None,
                     detail="", solver_s=0.0, canary=None, crosscheck=None)
        try:
            from . import pyvc as _pv
            _pv.VISITED.clear()
            out = self.fn(seed)
            res.update(out)
            lines = {}
            for (pth, ln) in _pv.VISITED:
                if pth:
                    lines.setdefault(pth, set()).add(ln)
            _merge_lines(res, {k: sorted(v) for k, v in lines.items()})
        except (JI.Unsupported, _pyvc_unsupported()) as e:
            res["status"] = "undecided"
            res["detail"] = f"unsupported: {e}"
            if self.native_fallback is not None:
                try:
                    wit = self.native_fallback()
                except Exception as e2:
                    wit = None
                    res["detail"] += f" (native fallback failed: {e2!r})"[:300]
                if wit:
                    res["status"] = "violated"
                    res["failure"] = "native"
                    res["backend"] = "native(bounded)"
                    res["detail"] = (f"not decidable symbolically ({e}); the bounded native monitor found a failing input: "
                                     + (wit[0] if isinstance(wit, (list, tuple)) else str(wit))[:600])
                    res["replay"] = {"native_disagrees": True, "native": wit, "expected": "the contract's postcondition",
                                     "reason_symbolic_engine_stopped": str(e)}
        except _pyvc_raise() as e:
            # the code under contract raises on a path the contract's precondition allows
            res["status"] = "violated"
            res["failure"] = "raises"
            res["detail"] = f"the function raises {e.exc_name} under the contract's precondition: {e.msg}"
            res["replay"] = {"native_disagrees": False, "solver_output": f"symbolic execution reached `raise {e.exc_name}`"}
        except Exception:
            res["detail"] = "checker exception: " + traceback.format_exc(limit=8)
        res["time_s"] = time.time() - t0
        return res


# ----------------------------------------------------------------------------- helpers

def _from_checker(e):
    """an exception counts as raised by the code under contract only if the innermost frame that
    is neither library code (site-packages) nor python's own lies in /repo; otherwise it is ours"""
    from .opaque import CalleePrecondition
    if isinstance(e, CalleePrecondition):
        return False
    tb = e.__traceback__
    last = None
    chain = []
    while tb is not None:
        fn = tb.tb_frame.f_code.co_filename
        if "site-packages" not in fn and not fn.startswith("<") and "/lib/python" not in fn:
            last = fn
            chain.append(fn)
        tb = tb.tb_next
    if last is None:
        return True
    if last.startswith(_REPO + "/"):
        return False
    # raised inside a user-supplied function of the contract (a transform, a boundary function, ...) *called by the code
    # under contract*: the code handed that function something outside its domain (e.g. the wrong parameter object)
    if "/contracts/" in last and any(f.startswith(_REPO + "/") for f in chain) \
            and isinstance(e, (AttributeError, KeyError, IndexError, TypeError)):
        k = max(i for i, f in enumerate(chain) if f.startswith(_REPO + "/"))
        if all("/contracts/" in f for f in chain[k + 1:]):
            return False
    return True


def _cut(p, n=400):
    s = str(p)
    return s if len(s) <= n else s[:n] + " ..."


def _sample(impl_l):
    for a in impl_l:
        if a.size:
            return _cut(a.reshape(-1)[0], 300)
    return ""


def _arr(x):
    x = np.asarray(x, dtype=float)
    return np.round(x, 10).tolist()


def _inputs(b, val):
    return {i.name: np.asarray(a).tolist() for i, a in zip(b["inputs"], val.arrays)}


def _short_model(m):
    if not m:
        return None
    items = sorted(m.items())[:40]
    return {k: v for k, v in items}


def write_replay(pid, res):
    os.makedirs(REPLAYS, exist_ok=True)
    h = hashlib.sha1(res["name"].encode()).hexdigest()[:10]
    path = os.path.join(REPLAYS, f"{pid}-{h}.json")
    rec = {"property": pid, "obligation": res["name"], "failure": res.get("failure"),
           "detail": res.get("detail"), "replay": res.get("replay"),
           "how_to_rerun": f"./check {pid} --replay {os.path.relpath(path, VERIF)}"}
    with open(path, "w") as f:
        json.dump(rec, f, indent=1, default=str)
    return path
