"""
Engine A — source-level VC generation for integer / index / store logic (DESIGN §1.1).

The functions under contract are re-read from /repo with `ast` on every run and executed symbolically, statement by
statement.  Sizes, indices and counters are z3 Ints (no bound), array contents are uninterpreted; arrays are extensional
objects (shape, element function), so repeat / tile / concatenate / reshape / take / dynamic_slice (with XLA clamping) /
dynamic_update_slice / .at[:k].set are index transformations.  `if` on a symbolic test forks the path; jax.lax.cond
evaluates both callees and merges with ite; fori_loop uses the invariant rule with the invariant given by the contract.

Python semantics assumed (stated in every evidence file): integers are mathematical (separate obligations bound the int32
quantities), floats are reals, left-to-right evaluation, `//` and `%` are floor division for positive divisors, no exception
other than an explicit raise / failed assert, equinox Modules are immutable outside __post_init__, decorators jit /
partial(jit) are no-ops, annotations and docstrings are dropped.  Anything outside the supported subset raises
`Unsupported` (the obligation is then undecided, never verified, never a violation).
"""
from __future__ import annotations
import ast
import itertools
import os
import z3

INT32_MAX = 2 ** 31 - 1
VISITED = set()         # (path, line) of every statement executed symbolically since the last reset (line coverage for the evidence)


class Unsupported(Exception):
    pass


class PyRaise(Exception):
    def __init__(self, exc_name, msg=""):
        self.exc_name, self.msg = exc_name, msg


# --------------------------------------------------------------------------------- values

class SArr:
    """extensional array: shape (python ints / z3 Ints), elem(*idx) -> scalar value"""

    def __init__(self, shape, elem, dtype="real"):
        self.shape, self.elem, self.dtype = tuple(shape), elem, dtype

    @property
    def ndim(self):
        return len(self.shape)

    def __getitem__(self, idx):
        return self.elem(*idx) if isinstance(idx, tuple) else self.elem(idx)


class Rec:
    def __init__(self, cls, fields):
        self.cls, self.fields = cls, dict(fields)

    def get(self, k):
        if k not in self.fields:
            raise Unsupported(f"record {self.cls} has no field {k}")
        return self.fields[k]

    def replace(self, **kw):
        f = dict(self.fields)
        f.update(kw)
        return Rec(self.cls, f)


class Key:
    _n = itertools.count()

    def __init__(self, tag="k"):
        self.name = f"{tag}{next(Key._n)}"


class Closure:
    def __init__(self, node, env, ex, self_val=None, cls=None):
        self.node, self.env, self.ex, self.self_val, self.cls = node, env, ex, self_val, cls


class Builtin:
    def __init__(self, name):
        self.name = name

    def __repr__(self):
        return f"<builtin {self.name}>"


class ModuleRef:
    def __init__(self, name):
        self.name = name


class KeysView(list):
    """dict.keys(): iterates in insertion order, compares like a set (python semantics)"""

    def __eq__(self, o):
        return set(self) == set(o)

    def __ne__(self, o):
        return not self.__eq__(o)

    __hash__ = None


class AtProxy:
    def __init__(self, arr, idx=None):
        self.arr, self.idx = arr, idx


class PathRec:
    """proxy recording attribute paths for eqx.tree_at selectors"""

    def __init__(self, path=()):
        self.path = path


def is_z3(v):
    return isinstance(v, z3.ExprRef)


def zint(v):
    if isinstance(v, bool):
        return z3.IntVal(int(v))
    if isinstance(v, int):
        return z3.IntVal(v)
    return v


def zbool(v):
    if isinstance(v, bool):
        return z3.BoolVal(v)
    return v


def zreal(v):
    if isinstance(v, (int, float)):
        return z3.RealVal(str(v)) if isinstance(v, float) else z3.RealVal(v)
    if is_z3(v) and v.sort() == z3.IntSort():
        return z3.ToReal(v)
    return v


def concrete(v):
    return not is_z3(v)


_fresh = itertools.count()


def fresh_int(tag):
    return z3.Int(f"{tag}!{next(_fresh)}")


def fresh_real(tag):
    return z3.Real(f"{tag}!{next(_fresh)}")


def fresh_fun(tag, *sorts):
    return z3.Function(f"{tag}!{next(_fresh)}", *sorts)


def ite(c, a, b):
    """structural if-then-else"""
    if isinstance(c, bool):
        return a if c else b
    if a is b:
        return a
    if isinstance(a, Rec) and isinstance(b, Rec) and a.cls == b.cls:
        return Rec(a.cls, {k: ite(c, a.fields[k], b.fields[k]) for k in a.fields})
    if isinstance(a, tuple) and isinstance(b, tuple) and len(a) == len(b):
        return tuple(ite(c, x, y) for x, y in zip(a, b))
    if isinstance(a, dict) and isinstance(b, dict) and a.keys() == b.keys():
        return {k: ite(c, a[k], b[k]) for k in a}
    if isinstance(a, SArr) and isinstance(b, SArr):
        if len(a.shape) != len(b.shape):
            raise Unsupported("ite of arrays of different rank")
        shape = tuple(x if (concrete(x) and concrete(y) and x == y) or (x is y) else ite(c, x, y) for x, y in zip(a.shape, b.shape))
        return SArr(shape, lambda *i: ite(c, a.elem(*i), b.elem(*i)), a.dtype)
    if isinstance(a, Key) or isinstance(b, Key):
        k = Key("kite")
        k.alts = (c, a, b)
        return k
    if a is None and b is None:
        return None
    if concrete(a) and concrete(b) and type(a) == type(b) and a == b:
        return a
    za, zb = a, b
    if not is_z3(za):
        za = z3.BoolVal(za) if isinstance(za, bool) else (z3.IntVal(za) if isinstance(za, int) else z3.RealVal(str(za)))
    if not is_z3(zb):
        zb = z3.BoolVal(zb) if isinstance(zb, bool) else (z3.IntVal(zb) if isinstance(zb, int) else z3.RealVal(str(zb)))
    if za.sort() != zb.sort():
        za, zb = zreal(za), zreal(zb)
    return z3.If(c, za, zb)


# --------------------------------------------------------------------------------- executor

class Outcome:
    def __init__(self, kind, value, pc):
        self.kind, self.value, self.pc = kind, value, pc


class Executor:
    def __init__(self, files, lib=None):
        self.modules = {}
        self.funcs, self.classes = {}, {}
        for path in files:
            src = open(path).read()
            tree = ast.parse(src)
            for nd in ast.walk(tree):
                nd._vf_path = path
            self.modules[path] = tree
            for node in tree.body:
                if isinstance(node, ast.FunctionDef):
                    self.funcs[node.name] = node
                elif isinstance(node, ast.ClassDef):
                    self.classes[node.name] = node
        self.lib = dict(LIB)
        if lib:
            self.lib.update(lib)
        self.obligations = []       # (name, pc, goal) generated during execution (bounds, asserts)
        self.assumptions = []       # library-contract axioms instantiated during execution
        self.stmts_visited = 0
        self.contracts = {}
        self.trace = []

    # -- class helpers
    def declared_fields(self, cls):
        """names declared by a class whose whole ancestry is in the loaded sources (annotated fields, class attributes and
        methods); None when some base is not loaded (then nothing can be said about a missing attribute)"""
        if cls not in self.classes:
            return None
        names = set()
        for c in self.mro(cls):
            node = self.classes[c]
            for b in node.bases:
                bname = b.id if isinstance(b, ast.Name) else (b.attr if isinstance(b, ast.Attribute) else None)
                if bname not in self.classes and not (isinstance(b, ast.Attribute) and bname == "Module"):
                    return None
            for st in node.body:
                if isinstance(st, ast.AnnAssign) and isinstance(st.target, ast.Name):
                    names.add(st.target.id)
                elif isinstance(st, ast.Assign):
                    names |= {t.id for t in st.targets if isinstance(t, ast.Name)}
                elif isinstance(st, ast.FunctionDef):
                    names.add(st.name)
        return names

    def mro(self, cls):
        out, todo = [], [cls]
        if cls not in self.classes:
            return [cls]
        while todo:
            c = todo.pop(0)
            if c in out or c not in self.classes:
                continue
            out.append(c)
            for b in self.classes[c].bases:
                if isinstance(b, ast.Name):
                    todo.append(b.id)
        return out

    def find_method(self, cls, name, after=None):
        chain = self.mro(cls)
        if after is not None:
            chain = chain[chain.index(after) + 1:]
        for c in chain:
            for n in self.classes[c].body:
                if isinstance(n, ast.FunctionDef) and n.name == name:
                    return c, n
        return None, None

    def isinstance_(self, v, clsname):
        return isinstance(v, Rec) and clsname in self.mro(v.cls)

    # -- calling
    def call_function(self, name, args, kwargs=None, pc=None):
        node = self.funcs[name]
        return self.call_closure(Closure(node, {}, self), args, kwargs or {}, pc or [])

    def call_method(self, rec, name, args=(), kwargs=None, pc=None):
        cls, node = self.find_method(rec.cls, name)
        if node is None:
            raise Unsupported(f"method {rec.cls}.{name} not found")
        return self.call_closure(Closure(node, {}, self, self_val=rec, cls=cls), list(args), kwargs or {}, pc or [])

    def call_closure(self, clo, args, kwargs, pc):
        node = clo.node
        env = dict(clo.env)
        a = node.args
        params = [x.arg for x in a.posonlyargs + a.args]
        args = list(args)
        if clo.self_val is not None:
            args = [clo.self_val] + args
            env["__class__"] = clo.cls
        defaults = a.defaults
        ndef = len(defaults)
        for i, p in enumerate(params):
            if i < len(args):
                env[p] = args[i]
            elif p in kwargs:
                env[p] = kwargs[p]
            else:
                di = i - (len(params) - ndef)
                if di < 0:
                    raise Unsupported(f"missing argument {p} of {getattr(node, 'name', '<lambda>')}")
                (env[p], _), = self.eval(defaults[di], env, pc)
        if a.vararg:
            env[a.vararg.arg] = tuple(args[len(params):])
        for p, d in zip(a.kwonlyargs, a.kw_defaults):
            if p.arg in kwargs:
                env[p.arg] = kwargs[p.arg]
            elif d is not None:
                (env[p.arg], _), = self.eval(d, env, pc)
        if isinstance(node, ast.Lambda):
            return [Outcome("return", v, p) for v, p in self.eval(node.body, env, pc)]
        env["__assigned__"] = frozenset(env.get("__assigned__", ())) | _assigned_names(node)
        outs = self.exec_block(node.body, env, pc)
        res = []
        for o in outs:
            if o.kind == "fall":
                res.append(Outcome("return", None, o.pc))
            else:
                res.append(o)
        return res

    # -- statements
    def exec_block(self, stmts, env, pc):
        if not stmts:
            return [Outcome("fall", env, pc)]
        s, rest = stmts[0], stmts[1:]
        self.stmts_visited += 1
        outs = self.exec_stmt(s, env, pc)
        res = []
        for o in outs:
            if o.kind == "fall":
                res += self.exec_block(rest, o.value, o.pc)
            else:
                res.append(o)
        return res

    def exec_stmt(self, s, env, pc):
        VISITED.add((getattr(s, "_vf_path", None), s.lineno))
        if isinstance(s, ast.Expr):
            if isinstance(s.value, ast.Constant):
                return [Outcome("fall", env, pc)]
            return [Outcome("fall", env, p) for _, p in self.eval(s.value, env, pc)]
        if isinstance(s, ast.Pass):
            return [Outcome("fall", env, pc)]
        if isinstance(s, ast.Assign):
            res = []
            for v, p in self.eval(s.value, env, pc):
                e = dict(env)
                for t in s.targets:
                    self.assign(t, v, e, p)
                res.append(Outcome("fall", e, p))
            return res
        if isinstance(s, ast.AnnAssign):
            if s.value is None:
                return [Outcome("fall", env, pc)]
            res = []
            for v, p in self.eval(s.value, env, pc):
                e = dict(env)
                self.assign(s.target, v, e, p)
                res.append(Outcome("fall", e, p))
            return res
        if isinstance(s, ast.AugAssign):
            res = []
            cur = ast.BinOp(left=_load(s.target), op=s.op, right=s.value)
            for v, p in self.eval(cur, env, pc):
                e = dict(env)
                self.assign(s.target, v, e, p)
                res.append(Outcome("fall", e, p))
            return res
        if isinstance(s, ast.Return):
            if s.value is None:
                return [Outcome("return", None, pc)]
            return [Outcome("return", v, p) for v, p in self.eval(s.value, env, pc)]
        if isinstance(s, ast.If):
            res = []
            for c, p in self.eval(s.test, env, pc):
                c = self.truth(c)
                if isinstance(c, bool):
                    res += self.exec_block(s.body if c else s.orelse, env, p)
                else:
                    if self.feasible(p + [c]):
                        res += self.exec_block(s.body, env, p + [c])
                    if self.feasible(p + [z3.Not(c)]):
                        res += self.exec_block(s.orelse, env, p + [z3.Not(c)])
            return res
        if isinstance(s, ast.Raise):
            name = "Exception"
            if s.exc is not None:
                f = s.exc.func if isinstance(s.exc, ast.Call) else s.exc
                name = f.id if isinstance(f, ast.Name) else getattr(f, "attr", "Exception")
            return [Outcome("raise", name, pc)]
        if isinstance(s, ast.Assert):
            res = []
            for c, p in self.eval(s.test, env, pc):
                c = self.truth(c)
                if isinstance(c, bool):
                    res.append(Outcome("fall", env, p) if c else Outcome("raise", "AssertionError", p))
                else:
                    if self.feasible(p + [z3.Not(c)]):
                        res.append(Outcome("raise", "AssertionError", p + [z3.Not(c)]))
                    res.append(Outcome("fall", env, p + [c]))
            return res
        if isinstance(s, ast.FunctionDef):
            e = dict(env)
            e[s.name] = Closure(s, e, self)
            return [Outcome("fall", e, pc)]
        if isinstance(s, ast.For):
            res = []
            for it, p in self.eval(s.iter, env, pc):
                items = self.iterate(it)
                states = [(env, p)]
                broken = []
                for item in items:
                    nxt = []
                    for (e, pp) in states:
                        e2 = dict(e)
                        self.assign(s.target, item, e2, pp)
                        for o in self.exec_block(s.body, e2, pp):
                            if o.kind in ("fall", "continue"):
                                nxt.append((o.value, o.pc))
                            elif o.kind == "break":
                                broken.append((o.value, o.pc))
                            else:
                                res.append(o)
                    states = nxt
                if s.orelse:
                    for e, pp in states:
                        res += self.exec_block(s.orelse, e, pp)
                else:
                    res += [Outcome("fall", e, pp) for e, pp in states]
                res += [Outcome("fall", e, pp) for e, pp in broken]
            return res
        if isinstance(s, ast.Continue):
            return [Outcome("continue", env, pc)]
        if isinstance(s, ast.Break):
            return [Outcome("break", env, pc)]
        if isinstance(s, ast.Try):
            # supported form: try: <body> except (KeyError, ...): <handler>  with a body that either works or raises KeyError
            outs = self.exec_block(s.body, env, pc)
            res = []
            for o in outs:
                if o.kind == "raise" and s.handlers:
                    res += self.exec_block(s.handlers[0].body, env, o.pc)
                else:
                    res.append(o)
            return res
        raise Unsupported(f"statement {type(s).__name__} (line {s.lineno})")

    def iterate(self, it):
        if isinstance(it, (list, tuple)):
            return list(it)
        if isinstance(it, dict):
            return list(it.keys())
        if isinstance(it, range):
            return list(it)
        raise Unsupported(f"iteration over {type(it).__name__}")

    def assign(self, t, v, env, pc):
        if isinstance(t, ast.Name):
            env[t.id] = v
        elif isinstance(t, (ast.Tuple, ast.List)):
            if isinstance(v, SArr):
                if not concrete(v.shape[0]):
                    raise Unsupported("unpacking an array of symbolic length")
                v = tuple(_index0(v, i) for i in range(v.shape[0]))
            vals = list(v)
            star = [i for i, x in enumerate(t.elts) if isinstance(x, ast.Starred)]
            if star:
                i = star[0]
                n_after = len(t.elts) - i - 1
                mid = vals[i:len(vals) - n_after]
                vals = vals[:i] + [list(mid)] + vals[len(vals) - n_after:]
            if len(vals) != len(t.elts):
                raise Unsupported("tuple unpacking length mismatch")
            for x, y in zip(t.elts, vals):
                self.assign(x.value if isinstance(x, ast.Starred) else x, y, env, pc)
        elif isinstance(t, ast.Attribute):
            (obj, _), = self.eval(t.value, env, pc)
            if isinstance(obj, Rec):
                obj.fields[t.attr] = v      # only legal in __post_init__ (records are otherwise never aliased by the executor)
            else:
                raise Unsupported("attribute store on non-record")
        elif isinstance(t, ast.Subscript):
            (obj, _), = self.eval(t.value, env, pc)
            (k, _), = self.eval(t.slice, env, pc)
            if isinstance(obj, dict):
                obj[k] = v
            else:
                raise Unsupported("subscript store on non-dict")
        else:
            raise Unsupported(f"assignment target {type(t).__name__}")

    # -- expressions: returns list of (value, pc)
    def eval(self, e, env, pc):
        m = getattr(self, "e_" + type(e).__name__, None)
        if m is None:
            raise Unsupported(f"expression {type(e).__name__} (line {getattr(e, 'lineno', '?')})")
        return m(e, env, pc)

    def eval1(self, e, env, pc):
        r = self.eval(e, env, pc)
        if len(r) != 1:
            raise Unsupported("path fork inside an expression")
        return r[0]

    def e_Constant(self, e, env, pc):
        return [(e.value, pc)]

    def e_Name(self, e, env, pc):
        if e.id in env:
            return [(env[e.id], pc)]
        if e.id in self.funcs:
            return [(Closure(self.funcs[e.id], {}, self), pc)]
        if e.id in self.classes:
            return [(Builtin("class:" + e.id), pc)]
        if e.id in self.lib:
            return [(self.lib[e.id], pc)]
        if e.id in ("jax", "jnp", "eqx", "np", "onp"):
            return [(ModuleRef({"np": "jnp", "onp": "jnp"}.get(e.id, e.id)), pc)]
        if e.id in ("True", "False", "None"):
            return [({"True": True, "False": False, "None": None}[e.id], pc)]
        if e.id in PY_BUILTINS:
            return [(Builtin(e.id), pc)]
        if e.id in env.get("__assigned__", ()):
            # python semantics: a local that is assigned somewhere in the function but not on this path
            raise PyRaise("UnboundLocalError", f"cannot access local variable '{e.id}' where it is not associated with a value")
        raise Unsupported(f"unknown name {e.id}")

    def e_Tuple(self, e, env, pc):
        return self._seq(e.elts, env, pc, tuple)

    def e_List(self, e, env, pc):
        return self._seq(e.elts, env, pc, list)

    def _seq(self, elts, env, pc, ctor):
        states = [([], pc)]
        for x in elts:
            nxt = []
            for vals, p in states:
                src = x.value if isinstance(x, ast.Starred) else x
                for v, p2 in self.eval(src, env, p):
                    nxt.append((vals + (list(v) if isinstance(x, ast.Starred) else [v]), p2))
            states = nxt
        return [(ctor(vals), p) for vals, p in states]

    def e_Dict(self, e, env, pc):
        d, p = {}, pc
        for k, v in zip(e.keys, e.values):
            if k is None:
                vv, p = self.eval1(v, env, p)
                d.update(vv)
                continue
            kk, p = self.eval1(k, env, p)
            vv, p = self.eval1(v, env, p)
            d[kk] = vv
        return [(d, p)]

    def e_JoinedStr(self, e, env, pc):
        return [("<fstring>", pc)]

    def e_Lambda(self, e, env, pc):
        return [(Closure(e, env, self), pc)]

    def e_IfExp(self, e, env, pc):
        res = []
        for c, p in self.eval(e.test, env, pc):
            c = self.truth(c)
            if isinstance(c, bool):
                res += self.eval(e.body if c else e.orelse, env, p)
            else:
                (a, p1), (b, p2) = self.eval1(e.body, env, p), self.eval1(e.orelse, env, p)
                mergeable = (a is b) or all(isinstance(v, (bool, int, float, Rec, tuple, dict, SArr, Key, type(None))) or is_z3(v) for v in (a, b))
                if mergeable:
                    res.append((ite(c, a, b), p))
                else:       # e.g. a dtype / a function chosen by a symbolic test: one path per choice
                    res.append((a, list(p) + [zbool(c)]))
                    res.append((b, list(p) + [z3.Not(zbool(c))]))
        return res

    def e_ListComp(self, e, env, pc):
        return [(self._comp(e, env, pc), pc)]

    def e_GeneratorExp(self, e, env, pc):
        return [(tuple(self._comp(e, env, pc)), pc)]

    def e_DictComp(self, e, env, pc):
        out = {}
        if len(e.generators) != 1:
            raise Unsupported("nested comprehension")
        g = e.generators[0]
        it, _ = self.eval1(g.iter, env, pc)
        for item in self.iterate(it):
            e2 = dict(env)
            self.assign(g.target, item, e2, pc)
            if all(self.truth(self.eval1(c, e2, pc)[0]) is True for c in g.ifs):
                k, _ = self.eval1(e.key, e2, pc)
                v, _ = self.eval1(e.value, e2, pc)
                out[k] = v
        return [(out, pc)]

    def _comp(self, e, env, pc):
        if len(e.generators) != 1:
            raise Unsupported("nested comprehension")
        g = e.generators[0]
        it, _ = self.eval1(g.iter, env, pc)
        out = []
        for item in self.iterate(it):
            e2 = dict(env)
            self.assign(g.target, item, e2, pc)
            if all(self.truth(self.eval1(c, e2, pc)[0]) is True for c in g.ifs):
                out.append(self.eval1(e.elt, e2, pc)[0])
        return out

    def e_Attribute(self, e, env, pc):
        res = []
        for v, p in self.eval(e.value, env, pc):
            res.append((self.getattr(v, e.attr), p))
        return res

    def getattr(self, v, attr):
        if isinstance(v, PathRec):
            return PathRec(v.path + (attr,))
        if isinstance(v, Rec):
            if attr in v.fields:
                return v.fields[attr]
            cls, node = self.find_method(v.cls, attr)
            if node is not None:
                return Closure(node, {}, self, self_val=v, cls=cls)
            declared = self.declared_fields(v.cls)
            if declared is not None and attr not in declared:
                # the class (and all its bases) is defined in the loaded sources and declares no such field / method
                raise PyRaise("AttributeError", f"'{v.cls}' object has no attribute '{attr}'")
            raise Unsupported(f"{v.cls} has no attribute {attr}")
        if isinstance(v, ModuleRef):
            name = v.name + "." + attr
            if name in self.lib:
                return self.lib[name]
            return ModuleRef(name)
        if isinstance(v, SArr):
            if attr == "shape":
                return tuple(v.shape)
            if attr == "ndim":
                return len(v.shape)
            if attr == "dtype":
                return Builtin("int" if v.dtype == "int" else "float")
            if attr == "at":
                return AtProxy(v)
            if attr in ("reshape", "flatten", "astype", "mean", "sum"):
                return Builtin("arr." + attr + ":" + str(id(v))), v
            if attr == "size":
                out = v.shape[0]
                for x in v.shape[1:]:
                    out = out * x
                return out
            raise Unsupported(f"array attribute {attr}")
        if isinstance(v, AtProxy) and attr == "set":
            return ("at.set", v)
        if isinstance(v, dict) and attr in ("keys", "values", "items", "get"):
            return ("dict." + attr, v)
        if isinstance(v, list) and attr == "append":
            return ("list.append", v)
        if isinstance(v, list) and attr == "union":
            return ("set.union", v)
        if isinstance(v, Builtin) and v.name == "super":
            raise Unsupported("bare super")
        if isinstance(v, tuple) and len(v) == 2 and isinstance(v[0], Builtin) and v[0].name == "superobj":
            rec, after = v[1]
            cls, node = self.find_method(rec.cls, attr, after=after)
            return Closure(node, {}, self, self_val=rec, cls=cls)
        if v is None:
            raise PyRaise("AttributeError", f"'NoneType' object has no attribute '{attr}'")
        raise Unsupported(f"attribute {attr} of {type(v).__name__}")

    def e_Subscript(self, e, env, pc):
        res = []
        for v, p in self.eval(e.value, env, pc):
            idx, p2 = self.eval_slice(e.slice, env, p)
            res.append((self.getitem(v, idx, p2), p2))
        return res

    def eval_slice(self, s, env, pc):
        if isinstance(s, ast.Slice):
            lo = self.eval1(s.lower, env, pc)[0] if s.lower else None
            hi = self.eval1(s.upper, env, pc)[0] if s.upper else None
            st = self.eval1(s.step, env, pc)[0] if s.step else None
            return ("slice", lo, hi, st), pc
        if isinstance(s, ast.Tuple):
            out = []
            for x in s.elts:
                v, pc = self.eval_slice(x, env, pc)
                out.append(v)
            return tuple(out), pc
        v, pc = self.eval1(s, env, pc)
        return v, pc

    def getitem(self, v, idx, pc):
        if isinstance(v, AtProxy):
            return AtProxy(v.arr, idx)
        if isinstance(v, dict):
            if idx not in v:
                raise PyRaise("KeyError", str(idx))
            return v[idx]
        if isinstance(v, (tuple, list)):
            if isinstance(idx, tuple) and idx and idx[0] == "slice":
                _, lo, hi, st = idx
                return type(v)(v[slice(lo, hi, st)])
            if not concrete(idx):
                raise Unsupported("symbolic index into a python sequence")
            return v[idx]
        if isinstance(v, SArr):
            return arr_getitem(v, idx)
        raise Unsupported(f"subscript of {type(v).__name__}")

    def e_UnaryOp(self, e, env, pc):
        res = []
        for v, p in self.eval(e.operand, env, pc):
            if isinstance(e.op, ast.Not):
                t = self.truth(v)
                res.append(((not t) if isinstance(t, bool) else z3.Not(t), p))
            elif isinstance(e.op, ast.USub):
                res.append((-v, p))
            else:
                raise Unsupported("unary op")
        return res

    def e_BinOp(self, e, env, pc):
        res = []
        for a, p in self.eval(e.left, env, pc):
            for b, p2 in self.eval(e.right, env, p):
                res.append((self.binop(e.op, a, b, p2), p2))
        return res

    def binop(self, op, a, b, pc):
        if isinstance(a, SArr) or isinstance(b, SArr):
            return arr_binop(self, op, a, b, pc)
        if isinstance(a, dict) and isinstance(b, dict) and isinstance(op, ast.BitOr):
            return {**a, **b}
        if isinstance(a, (tuple, list)) and isinstance(b, (tuple, list)) and isinstance(op, ast.Add):
            return type(a)(list(a) + list(b))
        if isinstance(a, str) or isinstance(b, str):
            return "<str>"
        if isinstance(op, ast.Add):
            return _num(a, b, lambda x, y: x + y)
        if isinstance(op, ast.Sub):
            return _num(a, b, lambda x, y: x - y)
        if isinstance(op, ast.Mult):
            return _num(a, b, lambda x, y: x * y)
        if isinstance(op, ast.Div):
            if concrete(a) and concrete(b):
                return a / b
            return zreal(a) / zreal(b)
        if isinstance(op, ast.FloorDiv):
            if concrete(a) and concrete(b):
                return a // b
            self.obligations.append(("floor-division divisor is positive", list(pc), zint(b) > 0))
            return zint(a) / zint(b)
        if isinstance(op, ast.Mod):
            if concrete(a) and concrete(b):
                return a % b
            self.obligations.append(("modulo divisor is positive", list(pc), zint(b) > 0))
            return zint(a) % zint(b)
        if isinstance(op, ast.Pow):
            if concrete(b) and b == 2:
                return _num(a, a, lambda x, y: x * y)
            if concrete(a) and concrete(b):
                return a ** b
        raise Unsupported(f"binary op {type(op).__name__}")

    def e_BoolOp(self, e, env, pc):
        vals, p = [], pc
        # python semantics `a or b` / `a and b` return an operand: exact when every operand's truth value is concrete
        last = None
        allc = True
        for x in e.values:
            v, p2 = self.eval1(x, env, p)
            t = self.truth(v)
            if not isinstance(t, bool):
                allc = False
                break
            last = v
            if (isinstance(e.op, ast.Or) and t) or (isinstance(e.op, ast.And) and not t):
                return [(v, p2)]
        if allc:
            return [(last, p)]
        vals, p = [], pc
        for x in e.values:
            v, p = self.eval1(x, env, p)
            t = self.truth(v)
            if isinstance(t, bool):
                if isinstance(e.op, ast.And) and not t:
                    return [(False, p)]
                if isinstance(e.op, ast.Or) and t:
                    return [(True, p)]
                continue
            vals.append(t)
        if not vals:
            return [(isinstance(e.op, ast.And), p)]
        return [((z3.And(vals) if isinstance(e.op, ast.And) else z3.Or(vals)) if len(vals) > 1 else vals[0], p)]

    def e_Compare(self, e, env, pc):
        left, p = self.eval1(e.left, env, pc)
        conj = []
        for op, r in zip(e.ops, e.comparators):
            right, p = self.eval1(r, env, p)
            conj.append(self.compare(op, left, right))
            left = right
        if all(isinstance(c, bool) for c in conj):
            return [(all(conj), p)]
        if any(c is False for c in conj):
            return [(False, p)]
        conj = [c for c in conj if c is not True]
        return [(z3.And(conj) if len(conj) > 1 else conj[0], p)]

    def compare(self, op, a, b):
        if isinstance(op, (ast.Is, ast.IsNot)):
            r = (a is b) or (a is None and b is None) or (isinstance(a, bool) and isinstance(b, bool) and a == b)
            return r if isinstance(op, ast.Is) else not r
        if isinstance(op, (ast.In, ast.NotIn)):
            if isinstance(b, tuple) and len(b) == 2 and isinstance(b[0], str) and b[0] == "dict.keys":
                b = b[1]
            r = a in b
            return r if isinstance(op, ast.In) else not r
        if isinstance(a, SArr) or isinstance(b, SArr):
            arr, other = (a, b) if isinstance(a, SArr) else (b, a)
            if isinstance(op, ast.Eq):
                return SArr(arr.shape, lambda *i: arr.elem(*i) == other, "bool")
            if isinstance(other, SArr):
                raise Unsupported("comparison of two arrays")
            if isinstance(op, ast.NotEq):
                return SArr(arr.shape, lambda *i: arr.elem(*i) != other, "bool")
            # elementwise order comparison with a scalar, the array on either side
            fl = {ast.Lt: (lambda x, y: x < y), ast.LtE: (lambda x, y: x <= y), ast.Gt: (lambda x, y: x > y), ast.GtE: (lambda x, y: x >= y)}[type(op)]
            if isinstance(a, SArr):
                return SArr(arr.shape, lambda *i: fl(_numz(arr.elem(*i)), _numz(other)), "bool")
            return SArr(arr.shape, lambda *i: fl(_numz(other), _numz(arr.elem(*i))), "bool")
        if isinstance(a, KeysView) or isinstance(b, KeysView):
            r = set(a) == set(b)
            if isinstance(op, ast.Eq):
                return r
            if isinstance(op, ast.NotEq):
                return not r
        if isinstance(a, tuple) and isinstance(b, tuple) and isinstance(op, (ast.Eq, ast.NotEq)):
            if len(a) != len(b):
                r = False
            else:
                parts = [self.compare(ast.Eq(), x, y) for x, y in zip(a, b)]
                if all(isinstance(x, bool) for x in parts):
                    r = all(parts)
                elif any(x is False for x in parts):
                    r = False
                else:
                    sym = [x for x in parts if x is not True]
                    r = z3.And(sym) if len(sym) > 1 else sym[0]
            if isinstance(op, ast.Eq):
                return r
            return (not r) if isinstance(r, bool) else z3.Not(r)
        if concrete(a) and concrete(b):
            return {ast.Eq: a == b, ast.NotEq: a != b, ast.Lt: None, ast.LtE: None, ast.Gt: None, ast.GtE: None}[type(op)] \
                if isinstance(op, (ast.Eq, ast.NotEq)) else \
                {ast.Lt: lambda: a < b, ast.LtE: lambda: a <= b, ast.Gt: lambda: a > b, ast.GtE: lambda: a >= b}[type(op)]()
        if isinstance(a, float) or isinstance(b, float) or (is_z3(a) and a.sort() == z3.RealSort()) or (is_z3(b) and b.sort() == z3.RealSort()):
            a, b = zreal(a), zreal(b)
        else:
            a, b = zint(a), zint(b)
        return {ast.Eq: lambda: a == b, ast.NotEq: lambda: a != b, ast.Lt: lambda: a < b, ast.LtE: lambda: a <= b,
                ast.Gt: lambda: a > b, ast.GtE: lambda: a >= b}[type(op)]()

    def truth(self, v):
        if isinstance(v, bool) or v is None:
            return bool(v)
        if is_z3(v):
            if v.sort() == z3.BoolSort():
                return v
            return v != 0
        if isinstance(v, (int, float, str, tuple, list, dict)):
            return bool(v)
        if isinstance(v, (Rec, Closure, SArr, Key)):
            return True
        raise Unsupported(f"truth value of {type(v).__name__}")

    def feasible(self, pc):
        s = z3.Solver()
        s.set("timeout", 2000)
        for c in pc:
            s.add(zbool(c))
        for a in self.assumptions:
            s.add(a)
        return s.check() != z3.unsat

    # -- calls
    def e_Call(self, e, env, pc):
        fv, p = self.eval1(e.func, env, pc)
        args, kwargs = [], {}
        for a in e.args:
            if isinstance(a, ast.Starred):
                v, p = self.eval1(a.value, env, p)
                args += list(v)
            else:
                v, p = self.eval1(a, env, p)
                args.append(v)
        for k in e.keywords:
            v, p = self.eval1(k.value, env, p)
            if k.arg is None:
                kwargs.update(v)
            else:
                kwargs[k.arg] = v
        return self.apply(fv, args, kwargs, p, env)

    def apply(self, fv, args, kwargs, pc, env=None):
        if isinstance(fv, Closure):
            name = getattr(fv.node, "name", None)
            key = (fv.cls + "." + name) if fv.cls else name
            if key in self.contracts:
                return self.contracts[key](self, fv, args, kwargs, pc)
            outs = self.call_closure(fv, args, kwargs, pc)
            res = []
            for o in outs:
                if o.kind == "return":
                    res.append((o.value, o.pc))
                else:
                    raise PyRaise(o.value)
            return res
        if isinstance(fv, Builtin):
            if fv.name.startswith("class:"):
                return [(self.construct(fv.name[6:], args, kwargs, pc), pc)]
            if fv.name == "super":
                rec = env["self"]
                return [((Builtin("superobj"), (rec, env["__class__"])), pc)]
            if fv.name == "isinstance":
                v, c = args
                names = [x.name[6:] for x in (c if isinstance(c, tuple) else (c,)) if isinstance(x, Builtin)]
                if isinstance(v, Rec) and any(isinstance(x, ModuleRef) and x.name == "eqx.Module" for x in (c if isinstance(c, tuple) else (c,))):
                    return [(True, pc)]         # every record models an equinox Module
                if isinstance(v, Rec):
                    return [(any(n in self.mro(v.cls) for n in names), pc)]
                for x in (c if isinstance(c, tuple) else (c,)):
                    if x in (int, float) or (isinstance(x, Builtin) and x.name in ("int", "float")):
                        if isinstance(v, (int, float)) and not isinstance(v, bool):
                            return [(True, pc)]
                    if isinstance(x, Builtin) and x.name == "dict" and isinstance(v, dict):
                        return [(True, pc)]
                    if isinstance(x, Builtin) and x.name == "tuple" and isinstance(v, tuple):
                        return [(True, pc)]
                    if isinstance(x, Builtin) and x.name == "list" and isinstance(v, list):
                        return [(True, pc)]
                return [(False, pc)]
            if fv.name in PY_BUILTINS:
                return [(PY_BUILTINS[fv.name](self, args, kwargs, pc), pc)]
        if isinstance(fv, tuple) and len(fv) == 2 and isinstance(fv[0], str):
            tag, obj = fv
            if tag == "at.set":
                return [(arr_at_set(self, obj, args[0], pc), pc)]
            if tag == "dict.keys":
                return [(KeysView(obj.keys()), pc)]
            if tag == "dict.values":
                return [(list(obj.values()), pc)]
            if tag == "dict.items":
                return [(list(obj.items()), pc)]
            if tag == "dict.get":
                return [(obj.get(*args), pc)]
            if tag == "set.union":
                out = list(obj)
                for a in args:
                    for k in (a.keys() if isinstance(a, dict) else a):
                        if k not in out:
                            out.append(k)
                return [(sorted(out), pc)]
            if tag == "list.append":
                obj.append(args[0])
                return [(None, pc)]
        if isinstance(fv, tuple) and len(fv) == 2 and isinstance(fv[0], Builtin) and fv[0].name.startswith("arr."):
            meth = fv[0].name.split(":")[0][4:]
            return [(ARR_METHODS[meth](self, fv[1], args, kwargs, pc), pc)]
        if callable(fv):
            r = fv(self, args, kwargs, pc)
            if isinstance(r, list) and r and isinstance(r[0], tuple) and len(r[0]) == 2 and isinstance(r[0][1], list):
                return r
            return [(r, pc)]
        if isinstance(fv, ModuleRef):
            raise Unsupported(f"library function {fv.name} has no model")
        raise Unsupported(f"call of {type(fv).__name__}")

    def construct(self, cls, args, kwargs, pc):
        """dataclass-style construction of an eqx.Module: fields from annotations, then __post_init__"""
        fields, order, initvars = {}, [], []
        for c in reversed(self.mro(cls)):
            for n in self.classes[c].body:
                if isinstance(n, ast.AnnAssign) and isinstance(n.target, ast.Name):
                    name = n.target.id
                    init, default = True, MISSING
                    ann = n.annotation
                    is_initvar = isinstance(ann, ast.Subscript) and isinstance(ann.value, ast.Name) and ann.value.id == "InitVar"
                    if n.value is not None:
                        if isinstance(n.value, ast.Call) and getattr(n.value.func, "attr", "") == "field":
                            for k in n.value.keywords:
                                if k.arg == "init":
                                    init = k.value.value
                                if k.arg == "default":
                                    default = self.eval1(k.value, {}, pc)[0]
                                if k.arg == "default_factory":
                                    default = self.apply(self.eval1(k.value, {}, pc)[0], [], {}, pc)[0][0]
                        else:
                            default = self.eval1(n.value, {}, pc)[0]
                    if name in order:
                        order.remove(name)
                    order.append(name)
                    fields[name] = (init, default)
                    if is_initvar:
                        initvars.append(name)
        vals = {}
        pos = [n for n in order if fields[n][0]]
        for n, v in zip(pos, args):
            vals[n] = v
        for n in order:
            init, default = fields[n]
            if n in kwargs:
                vals[n] = kwargs[n]
            elif n not in vals and init:
                if default is MISSING:
                    raise Unsupported(f"missing field {n} constructing {cls}")
                vals[n] = default
        iv = {k: vals.pop(k) for k in initvars if k in vals}          # InitVar pseudo-fields go to __post_init__
        rec = Rec(cls, vals)
        c, node = self.find_method(cls, "__post_init__")
        if node is not None:
            outs = self.call_closure(Closure(node, {}, self, self_val=rec, cls=c), [], iv, pc)
            for o in outs:
                if o.kind == "raise":
                    raise PyRaise(o.value)
            if len([o for o in outs if o.kind == "return"]) > 1:
                # the record under construction is one object shared by all paths: field stores of one path would be
                # seen by the other.  Not modelled: undecided (the caller may fall back on a bounded native check)
                raise Unsupported(f"{cls}.__post_init__ takes different paths depending on a symbolic value")
        return rec


MISSING = object()


def _assigned_names(fn):
    out = set()
    for n in ast.walk(fn):
        if isinstance(n, ast.Name) and isinstance(n.ctx, ast.Store):
            out.add(n.id)
    return frozenset(out)


def _load(t):
    import copy
    t2 = copy.deepcopy(t)
    for n in ast.walk(t2):
        if hasattr(n, "ctx"):
            n.ctx = ast.Load()
    return t2


def _num(a, b, f):
    if concrete(a) and concrete(b):
        return f(a, b)
    ra = isinstance(a, float) or (is_z3(a) and a.sort() == z3.RealSort())
    rb = isinstance(b, float) or (is_z3(b) and b.sort() == z3.RealSort())
    if ra or rb:
        return f(zreal(a), zreal(b))
    return f(zint(a), zint(b))


def _index0(a, i):
    if len(a.shape) == 1:
        return a.elem(i)
    return SArr(a.shape[1:], lambda *j: a.elem(i, *j), a.dtype)


# --------------------------------------------------------------------------------- array models

def arr_getitem(a, idx):
    if not isinstance(idx, tuple) or (idx and idx[0] == "slice"):
        idx = (idx,)
    # Ellipsis expansion
    n_real = sum(1 for x in idx if x is not None and x is not Ellipsis)
    if any(x is Ellipsis for x in idx):
        k = [i for i, x in enumerate(idx) if x is Ellipsis][0]
        fill = tuple(("slice", None, None, None) for _ in range(len(a.shape) - n_real))
        idx = idx[:k] + fill + idx[k + 1:]
    else:
        idx = idx + tuple(("slice", None, None, None) for _ in range(len(a.shape) - n_real))
    # build output dims
    out_shape, plan, src = [], [], 0
    for x in idx:
        if x is None:
            out_shape.append(1)
            plan.append(("new",))
        elif isinstance(x, tuple) and x and x[0] == "slice":
            _, lo, hi, st = x
            if st not in (None, 1):
                raise Unsupported("strided slice")
            n = a.shape[src]
            lo_ = 0 if lo is None else lo
            hi_ = n if hi is None else hi
            if concrete(lo_) and lo_ < 0:
                lo_ = n + lo_
            if concrete(hi_) and hi_ < 0:
                hi_ = n + hi_
            size = hi_ - lo_
            if concrete(size) and size < 0:
                size = 0
            out_shape.append(size)
            plan.append(("slice", src, lo_))
            src += 1
        elif isinstance(x, SArr):
            if len(x.shape) != 1:
                raise Unsupported("fancy index of rank != 1")
            out_shape.append(x.shape[0])
            plan.append(("fancy", src, x))
            src += 1
        else:
            plan.append(("int", src, x))
            src += 1

    def elem(*j):
        src_idx, k = [None] * len(a.shape), 0
        for pl in plan:
            if pl[0] == "new":
                k += 1
            elif pl[0] == "slice":
                src_idx[pl[1]] = j[k] + pl[2]
                k += 1
            elif pl[0] == "fancy":
                src_idx[pl[1]] = pl[2].elem(j[k])
                k += 1
            else:
                v = pl[2]
                if concrete(v) and v < 0:
                    v = a.shape[pl[1]] + v
                src_idx[pl[1]] = v
        return a.elem(*src_idx)
    if not out_shape:
        return elem()
    return SArr(tuple(out_shape), elem, a.dtype)


def arr_binop(ex, op, a, b, pc):
    def sc(x, i):
        if isinstance(x, SArr):
            # numpy broadcasting on trailing axes
            off = len(i) - len(x.shape)
            idx = [0 if (concrete(x.shape[k]) and x.shape[k] == 1) else i[off + k] for k in range(len(x.shape))]
            return x.elem(*idx)
        return x
    ra, rb = (len(a.shape) if isinstance(a, SArr) else 0), (len(b.shape) if isinstance(b, SArr) else 0)
    big = a if ra >= rb else b
    if isinstance(a, SArr) and isinstance(b, SArr) and ra == rb:
        shape = tuple(y if (concrete(x) and x == 1) else x for x, y in zip(a.shape, b.shape))
    else:
        shape = big.shape
    # true division always gives a float; otherwise the result is real as soon as one operand is
    def _dt(x):
        if isinstance(x, SArr):
            return x.dtype
        if isinstance(x, (bool, int)) or (is_z3(x) and x.sort() == z3.IntSort()):
            return "int"
        return "real"
    dt = "real" if isinstance(op, ast.Div) or "real" in (_dt(a), _dt(b)) else big.dtype
    return SArr(shape, lambda *i: ex.binop(op, sc(a, i), sc(b, i), pc), dt)


def arr_at_set(ex, proxy, val, pc):
    a, idx = proxy.arr, proxy.idx
    if isinstance(idx, tuple) and idx and idx[0] == "slice":
        _, lo, hi, st = idx
        lo_ = 0 if lo is None else lo
        hi_ = a.shape[0] if hi is None else hi

        def elem(*j):
            inside = z3.And(zint(j[0]) >= zint(lo_), zint(j[0]) < zint(hi_)) if not (concrete(j[0]) and concrete(lo_) and concrete(hi_)) \
                else (lo_ <= j[0] < hi_)
            v = val.elem(j[0] - lo_, *j[1:]) if isinstance(val, SArr) else val
            return ite(inside, v, a.elem(*j))
        return SArr(a.shape, elem, a.dtype)
    raise Unsupported(".at[...] with a non-slice index")


def lib_dynamic_slice(ex, args, kwargs, pc):
    a = args[0]
    starts = kwargs.get("start_indices", args[1] if len(args) > 1 else None)
    sizes = kwargs.get("slice_sizes", args[2] if len(args) > 2 else None)
    starts, sizes = list(starts), list(sizes)
    cl = []
    for s, n, k in zip(starts, a.shape, sizes):
        # jax.lax wraps a negative start (s + n), then XLA clamps the start index into [0, n - size]
        hi = n - k
        if concrete(s) and concrete(hi) and concrete(n):
            s = s + n if s < 0 else s
            cl.append(max(0, min(s, hi)))
        else:
            s_, hi_ = zint(s), zint(hi)
            s_ = z3.If(s_ < 0, s_ + zint(n), s_)
            cl.append(z3.If(s_ < 0, 0, z3.If(s_ > hi_, hi_, s_)))
    return SArr(tuple(sizes), lambda *j: a.elem(*[c + x for c, x in zip(cl, j)]), a.dtype)


def lib_dynamic_update_slice(ex, args, kwargs, pc):
    a, u, starts = args[0], args[1], list(args[2])
    cl = []
    for s, n, k in zip(starts, a.shape, u.shape):
        hi = n - k
        if concrete(s) and concrete(hi) and concrete(n):
            s = s + n if s < 0 else s
            cl.append(max(0, min(s, hi)))
        else:
            s_, hi_ = zint(s), zint(hi)
            s_ = z3.If(s_ < 0, s_ + zint(n), s_)
            cl.append(z3.If(s_ < 0, 0, z3.If(s_ > hi_, hi_, s_)))

    def elem(*j):
        conds = []
        for c, x, k in zip(cl, j, u.shape):
            conds.append(z3.And(zint(x) >= zint(c), zint(x) < zint(c) + zint(k)))
        inside = z3.And(conds) if len(conds) > 1 else conds[0]
        return ite(inside, u.elem(*[x - c for c, x in zip(cl, j)]), a.elem(*j))
    return SArr(a.shape, elem, a.dtype)


def lib_cond(ex, args, kwargs, pc):
    pred, f, g, *ops = args
    if "operand" in kwargs:
        ops = [kwargs["operand"]]
    t = ex.truth(pred)
    rt = ex.apply(f, ops, {}, pc)
    rf = ex.apply(g, ops, {}, pc)
    if isinstance(t, bool):
        return rt if t else rf
    if len(rt) != 1 or len(rf) != 1:
        raise Unsupported("fork inside lax.cond branch")
    return [(ite(t, rt[0][0], rf[0][0]), pc)]


def lib_split(ex, args, kwargs, pc):
    n = args[1] if len(args) > 1 else kwargs.get("num", 2)
    if not concrete(n):
        raise Unsupported("symbolic number of keys")
    return tuple(Key("split") for _ in range(n))


def lib_choice(ex, args, kwargs, pc):
    """jax.random.choice(key, a, shape=(len(a),), replace=False, p) — assumed contract: a o pi with pi a bijection of
    [0, n); when p is given, rows with p == 0 come after every row with p > 0."""
    key, a = args[0], args[1]
    shape = kwargs.get("shape", args[2] if len(args) > 2 else None)
    if kwargs.get("replace", True) is not False:
        raise Unsupported("choice with replacement")
    n = a.shape[0]
    ex.obligations.append(("choice draws the whole store (shape == (n,))", list(pc), zint(shape[0]) == zint(n)))
    pi = fresh_fun("pi", z3.IntSort(), z3.IntSort())
    inv = fresh_fun("pi_inv", z3.IntSort(), z3.IntSort())
    out = SArr(a.shape, lambda i, *r: a.elem(pi(zint(i)), *r), a.dtype)
    out.perm = (pi, inv, n, a, kwargs.get("p"))
    ex.perms = getattr(ex, "perms", []) + [out.perm]
    return out


def lib_permutation(ex, args, kwargs, pc):
    """jax.random.permutation(key, x, axis=0, independent=False) — assumed contract: x o pi along axis 0 with pi a bijection
    of [0, n); with independent=True on an array of rank >= 2 every 1-D slice along the axis is shuffled with its own
    bijection (rows are NOT kept together)."""
    key, a = args[0], args[1]
    axis = kwargs.get("axis", args[2] if len(args) > 2 else 0)
    independent = kwargs.get("independent", args[3] if len(args) > 3 else False)
    if not isinstance(a, SArr) or axis != 0:
        raise Unsupported("jax.random.permutation: only arrays along axis 0 are modelled")
    n = a.shape[0]
    rank = len(a.shape)
    if not independent or rank == 1:
        pi = fresh_fun("pi", z3.IntSort(), z3.IntSort())
        inv = fresh_fun("pi_inv", z3.IntSort(), z3.IntSort())
        out = SArr(a.shape, lambda i, *r: a.elem(pi(zint(i)), *r), a.dtype)
        out.perm = (pi, inv, n, a, None)
    else:
        pi_ = fresh_fun("pi_ind", *([z3.IntSort()] * (rank + 1)))
        inv_ = fresh_fun("pi_ind_inv", *([z3.IntSort()] * (rank + 1)))
        out = SArr(a.shape, lambda i, *r: a.elem(pi_(zint(i), *[zint(x) for x in r]), *r), a.dtype)
        zeros = [z3.IntVal(0)] * (rank - 1)
        out.perm = ((lambda x: pi_(zint(x), *zeros)), (lambda x: inv_(zint(x), *zeros)), n, a, None)
    ex.perms = getattr(ex, "perms", []) + [out.perm]
    return out


def perm_axioms(perm, points):
    """instantiate the permutation contract at the given index terms"""
    pi, inv, n, a, p = perm
    ax = []
    for x in points:
        x = zint(x)
        inr = z3.And(x >= 0, x < zint(n))
        ax.append(z3.Implies(inr, z3.And(pi(x) >= 0, pi(x) < zint(n), inv(pi(x)) == x)))
        ax.append(z3.Implies(inr, z3.And(inv(x) >= 0, inv(x) < zint(n), pi(inv(x)) == x)))
    return ax


def lib_uniform(ex, args, kwargs, pc):
    key = args[0]
    if not isinstance(key, Key):
        raise PyRaise("TypeError", "jax.random.uniform called with something that is not a PRNG key")
    shape = kwargs.get("shape", args[1] if len(args) > 1 else ())
    lo, hi = kwargs.get("minval", 0.0), kwargs.get("maxval", 1.0)
    f = fresh_fun("unif", *([z3.IntSort()] * max(1, len(shape)) + [z3.RealSort()]))
    out = SArr(tuple(shape), lambda *i: f(*[zint(x) for x in i]), "real")
    out.range = (zreal(lo), zreal(hi), f)
    ex.uniforms = getattr(ex, "uniforms", []) + [out.range]
    return out


def lib_tree_at(ex, args, kwargs, pc):
    where, obj, new = args[0], args[1], args[2]
    sel = ex.apply(where, [PathRec()], {}, pc)[0][0]
    paths = [sel.path] if isinstance(sel, PathRec) else [s.path for s in sel]
    news = [new] if isinstance(sel, PathRec) else list(new)
    if len(paths) != len(news):
        raise Unsupported("tree_at arity mismatch")
    out = obj
    for pth, v in zip(paths, news):
        out = _set_path(out, pth, v)
    return out


def _set_path(obj, path, v):
    if not path:
        return v
    if isinstance(obj, Rec):
        return obj.replace(**{path[0]: _set_path(obj.fields[path[0]], path[1:], v)})
    raise Unsupported("tree_at path through a non-record")


def lib_repeat(ex, args, kwargs, pc):
    a, reps = args[0], args[1]
    axis = kwargs.get("axis", args[2] if len(args) > 2 else None)
    if axis is None:
        raise Unsupported("repeat without axis")
    shape = list(a.shape)
    shape[axis] = shape[axis] * reps if concrete(shape[axis]) and concrete(reps) else zint(shape[axis]) * zint(reps)
    if not concrete(reps):
        ex.obligations.append(("repeat count is positive", list(pc), zint(reps) > 0))

    def elem(*j):
        j = list(j)
        j[axis] = (j[axis] // reps) if concrete(j[axis]) and concrete(reps) else zint(j[axis]) / zint(reps)
        return a.elem(*j)
    return SArr(tuple(shape), elem, a.dtype)


def lib_tile(ex, args, kwargs, pc):
    a = args[0]
    reps = kwargs.get("reps", args[1] if len(args) > 1 else None)
    reps = list(reps) if isinstance(reps, (tuple, list)) else [reps]
    if len(reps) > len(a.shape):
        raise Unsupported("tile with more repetition counts than axes (numpy prepends axes)")
    reps = [1] * (len(a.shape) - len(reps)) + reps
    shape = [s * r if concrete(s) and concrete(r) else zint(s) * zint(r) for s, r in zip(a.shape, reps)]

    def elem(*j):
        src = []
        for x, s, r in zip(j, a.shape, reps):
            if concrete(r) and r == 1:
                src.append(x)
            else:
                src.append((x % s) if concrete(x) and concrete(s) else zint(x) % zint(s))
        return a.elem(*src)
    return SArr(tuple(shape), elem, a.dtype)


def lib_concatenate(ex, args, kwargs, pc):
    arrs = list(args[0])
    axis = kwargs.get("axis", args[1] if len(args) > 1 else 0)
    if axis < 0:
        axis += len(arrs[0].shape)
    sizes = [a.shape[axis] for a in arrs]
    total = sizes[0]
    for s in sizes[1:]:
        total = total + s if concrete(total) and concrete(s) else zint(total) + zint(s)
    shape = list(arrs[0].shape)
    shape[axis] = total

    def elem(*j):
        x = j[axis]
        off = 0
        res = None
        cases = []
        for a, s in zip(arrs, sizes):
            jj = list(j)
            jj[axis] = x - off
            cases.append((off, s, a.elem(*jj)))
            off = off + s if concrete(off) and concrete(s) else zint(off) + zint(s)
        res = cases[-1][2]
        for off_, s_, v in reversed(cases[:-1]):
            if concrete(x) and concrete(off_) and concrete(s_):
                res = v if x < off_ + s_ else res
            else:
                res = ite(zint(x) < zint(off_) + zint(s_), v, res)
        return res
    return SArr(tuple(shape), elem, arrs[0].dtype)


def lib_broadcast_to(ex, args, kwargs, pc):
    """jnp.broadcast_to(a, shape): right-aligned; a source extent that is the literal 1 is repeated, any other source
    extent must equal the target extent (side obligation)"""
    a = args[0]
    shape = tuple(kwargs.get("shape", args[1] if len(args) > 1 else None))
    if not isinstance(a, SArr) or len(a.shape) > len(shape):
        raise Unsupported("broadcast_to of this value")
    off = len(shape) - len(a.shape)
    rep = []
    for k, sx in enumerate(a.shape):
        if concrete(sx) and sx == 1:
            rep.append(True)
        else:
            rep.append(False)
            tx = shape[off + k]
            if not (sx is tx or (concrete(sx) and concrete(tx) and sx == tx)):
                ex.obligations.append(("broadcast_to: extents agree", list(pc), zint(sx) == zint(tx)))
    return SArr(shape, lambda *j: a.elem(*[0 if rep[k] else j[off + k] for k in range(len(a.shape))]), a.dtype)


def lib_reshape_method(ex, a, args, kwargs, pc):
    new = tuple(args[0]) if len(args) == 1 and isinstance(args[0], (tuple, list)) else tuple(args)
    return reshape(ex, a, new, pc)


def reshape(ex, a, new, pc):
    # supported: adding / removing unit axes, and (n,) <-> (n, 1, ...) style reshapes
    old_nz = [s for s in a.shape if not (concrete(s) and s == 1)]
    new_nz = [s for s in new if not (concrete(s) and s == 1)]
    if len(a.shape) == 1 and len(new) == 2 and len(new_nz) == 2:
        # row-major split of one axis: out[i, j] = a[i * cols + j]
        rows, cols = new
        ex.obligations.append(("reshape preserves the number of elements", list(pc), zint(a.shape[0]) == zint(rows) * zint(cols)))
        return SArr((rows, cols), lambda i, j: a.elem(zint(i) * zint(cols) + zint(j)), a.dtype)
    if len(a.shape) == 2 and len(old_nz) == 2 and len(new_nz) == 1:
        rows, cols = a.shape
        ex.obligations.append(("reshape preserves the number of elements", list(pc), zint(new_nz[0]) == zint(rows) * zint(cols)))
        pos = [k for k, s_ in enumerate(new) if not (concrete(s_) and s_ == 1)][0]
        return SArr(tuple(new), lambda *j: a.elem(zint(j[pos]) / zint(cols), zint(j[pos]) % zint(cols)), a.dtype)
    if len(a.shape) == len(new) + 1 and len(a.shape) >= 2 and all(
            (x is y) or (concrete(x) and concrete(y) and x == y) for x, y in zip(a.shape[2:], new[1:])):
        # row-major merge of the two leading axes: out[r, ...] = a[r // B, r % B, ...]
        A_, B_ = a.shape[0], a.shape[1]
        ex.obligations.append(("reshape preserves the number of elements", list(pc), zint(new[0]) == zint(A_) * zint(B_)))
        return SArr(tuple(new), lambda r, *rest: a.elem(zint(r) / zint(B_), zint(r) % zint(B_), *rest), a.dtype)
    if len(old_nz) != len(new_nz):
        raise Unsupported(f"general reshape {a.shape} -> {new}")
    for x, y in zip(old_nz, new_nz):
        if not (x is y or (concrete(x) and concrete(y) and x == y)):
            ex.obligations.append(("reshape preserves the non-unit extents", list(pc), zint(x) == zint(y)))
    old_pos = [k for k, s in enumerate(a.shape) if not (concrete(s) and s == 1)]
    new_pos = [k for k, s in enumerate(new) if not (concrete(s) and s == 1)]

    def elem(*j):
        src = [0] * len(a.shape)
        for op, np_ in zip(old_pos, new_pos):
            src[op] = j[np_]
        return a.elem(*src)
    return SArr(tuple(new), elem, a.dtype)


def flatten(ex, a):
    if len(a.shape) == 1:
        return a
    if len(a.shape) == 2:
        rows, cols = a.shape
        return SArr((zint(rows) * zint(cols),), lambda k: a.elem(zint(k) / zint(cols), zint(k) % zint(cols)), a.dtype)
    raise Unsupported("flatten of rank > 2")


def lib_vmap(ex, args, kwargs, pc):
    """vmap of an opaque per-point residual: the result at row i is an uninterpreted function of the row (and of nothing
    else: loss / network / parameters are fixed during one refinement step)"""
    f = args[0]
    # which method of a dynamic loss the mapped function calls (the residual of the training loss is `evaluate`: it applies
    # heterogeneous parameters before calling the user's `equation`)
    node = getattr(f, "node", None)
    if node is not None:
        for sub in ast.walk(node):
            if isinstance(sub, ast.Call) and isinstance(sub.func, ast.Attribute) and "dynamic_loss" in ast.unparse(sub.func.value):
                ex.residual_methods = getattr(ex, "residual_methods", []) + [sub.func.attr]
    cols = getattr(ex, "residual_cols", None)      # None: scalar residual per row (rank 1); k: (rows, k) residual vectors
    if cols is None:
        res = fresh_fun("residual", z3.IntSort(), z3.RealSort())
    else:
        res = fresh_fun("residual", z3.IntSort(), z3.IntSort(), z3.RealSort())

    def mapped(ex_, a, k, pc_):
        rows = a[0].shape[0]
        ex_.residuals = getattr(ex_, "residuals", []) + [(res, a)]
        if cols is None:
            return SArr((rows,), lambda i: res(zint(i)), "real")
        return SArr((rows, cols), lambda i, c: res(zint(i), zint(c)), "real")
    return mapped


def lib_argsort(ex, args, kwargs, pc):
    """assumed contract: a bijection sigma of [0, n) with a[sigma(0)] <= a[sigma(1)] <= ..."""
    a = args[0]
    sig = fresh_fun("argsort", z3.IntSort(), z3.IntSort())
    out = SArr((a.shape[0],), lambda i: sig(zint(i)), "int")
    ex.sorts = getattr(ex, "sorts", []) + [(sig, a)]
    return out


def lib_top_k(ex, args, kwargs, pc):
    """assumed contract: indices of the k largest entries, largest first (injective, in range)"""
    a = args[0]
    k = kwargs.get("k", args[1] if len(args) > 1 else None)
    top = fresh_fun("topk", z3.IntSort(), z3.IntSort())
    ex.topks = getattr(ex, "topks", []) + [(top, a, k)]
    vals = SArr((k,), lambda i: a.elem(top(zint(i))), "real")
    return (vals, SArr((k,), lambda i: top(zint(i)), "int"))


def lib_unravel_index(ex, args, kwargs, pc):
    idx, shape = args[0], args[1]
    if len(shape) != 2:
        raise Unsupported("unravel_index for rank != 2")
    cols = shape[1]
    return (SArr(idx.shape, lambda i: idx.elem(i) / zint(cols), "int"), SArr(idx.shape, lambda i: idx.elem(i) % zint(cols), "int"))


def lib_norm(ex, args, kwargs, pc):
    """jnp.linalg.norm(a, axis=-1) of a (rows, k) array with concrete k: the Euclidean norm N(i) >= 0 with
    N(i)^2 == sum_c a[i, c]^2 (axioms recorded in ex.norms, instantiated by the contract at the rows it talks about)"""
    a = args[0]
    axis = kwargs.get("axis", args[1] if len(args) > 1 else None)
    if len(a.shape) == 2 and axis in (-1, 1) and concrete(a.shape[1]):
        k = int(a.shape[1])
        if k == 1:
            return SArr((a.shape[0],), lambda i: z3.If(zreal(a.elem(i, 0)) >= 0, zreal(a.elem(i, 0)), -zreal(a.elem(i, 0))), "real")
        N = fresh_fun("norm", z3.IntSort(), z3.RealSort())
        ex.norms = getattr(ex, "norms", []) + [(N, a, k)]
        return SArr((a.shape[0],), lambda i: N(zint(i)), "real")
    raise Unsupported("norm of this shape / axis")


def norm_axioms(ex, points):
    ax = []
    for (N, a, k) in getattr(ex, "norms", []):
        for pt in points:
            ax.append(z3.And(N(zint(pt)) >= 0, N(zint(pt)) * N(zint(pt)) == sum((zreal(a.elem(pt, c)) * zreal(a.elem(pt, c)) for c in range(k)), z3.RealVal(0))))
    return ax


def _ewise(f, *xs):
    """elementwise over broadcastable SArr / scalars"""
    arrs = [x for x in xs if isinstance(x, SArr)]
    if not arrs:
        return f(*xs)
    big = max(arrs, key=lambda a: len(a.shape))
    def at(x, i):
        if isinstance(x, SArr):
            off = len(i) - len(x.shape)
            return x.elem(*[0 if (concrete(x.shape[k]) and x.shape[k] == 1) else i[off + k] for k in range(len(x.shape))])
        return x
    dt = "int" if all((a.dtype == "int") for a in arrs) and all(isinstance(x, (int, SArr)) or (is_z3(x) and x.sort() == z3.IntSort()) for x in xs) else "real"
    return SArr(big.shape, lambda *i: f(*[at(x, i) for x in xs]), dt)


def _numz(x):
    return x if (isinstance(x, int) or (is_z3(x) and x.sort() == z3.IntSort())) else zreal(x)


def lib_minimum(ex, args, kwargs, pc):
    return _ewise(lambda a, b: z3.If(_numz(a) <= _numz(b), _numz(a), _numz(b)) if (is_z3(a) or is_z3(b)) else min(a, b), args[0], args[1])


def lib_maximum(ex, args, kwargs, pc):
    return _ewise(lambda a, b: z3.If(_numz(a) >= _numz(b), _numz(a), _numz(b)) if (is_z3(a) or is_z3(b)) else max(a, b), args[0], args[1])


def lib_clip(ex, args, kwargs, pc):
    x = args[0]
    lo = args[1] if len(args) > 1 else kwargs.get("min", kwargs.get("a_min"))
    hi = args[2] if len(args) > 2 else kwargs.get("max", kwargs.get("a_max"))
    out = x
    if lo is not None:
        out = lib_maximum(ex, [out, lo], {}, pc)
    if hi is not None:
        out = lib_minimum(ex, [out, hi], {}, pc)
    return out


def lib_sum(ex, args, kwargs, pc):
    """jnp.sum over the last axis of an array whose last extent is concrete"""
    a = args[0]
    axis = kwargs.get("axis", args[1] if len(args) > 1 else None)
    if isinstance(a, SArr) and len(a.shape) >= 1 and axis in (-1, len(a.shape) - 1) and concrete(a.shape[-1]):
        k = int(a.shape[-1])
        return SArr(tuple(a.shape[:-1]), lambda *i: sum((zreal(a.elem(*i, c)) for c in range(k)), z3.RealVal(0)), "real")
    raise Unsupported("jnp.sum of this shape / axis")


def lib_fori_loop(ex, args, kwargs, pc):
    """invariant rule through a closed form supplied by the contract (keyed by loop ordinal):
    obligations  closed(lo) == init  and  body(i, closed(i)) == closed(i+1) for lo <= i < hi ; result closed(hi)"""
    lo, hi, body, init = args
    ordinal = getattr(ex, "loop_ordinal", 0)
    ex.loop_ordinal = ordinal + 1
    closed = ex.loop_contracts[ordinal](lo, hi, init) if ordinal < len(getattr(ex, "loop_contracts", [])) else None
    if closed is None:
        raise Unsupported("fori_loop without a loop contract")
    k = tuple(fresh_int("k") for _ in init.shape)
    inr = [z3.And(x >= 0, x < zint(n_)) for x, n_ in zip(k, init.shape)]
    i = fresh_int("it")
    ex.obligations.append((f"loop{ordinal}: invariant holds initially", list(pc) + inr, zreal(closed(lo).elem(*k)) == zreal(init.elem(*k))))
    stepped = ex.apply(body, [i, closed(i)], {}, pc)[0][0]
    ex.obligations.append((f"loop{ordinal}: invariant preserved by the body", list(pc) + inr + [zint(lo) <= i, i < zint(hi)],
                           zreal(stepped.elem(*k)) == zreal(closed(i + 1).elem(*k))))
    res = closed(hi)
    return SArr(init.shape, lambda *j: ite(zint(hi) > zint(lo), res.elem(*j), init.elem(*j)), init.dtype)


def lib_zeros(ex, args, kwargs, pc):
    shape = args[0] if isinstance(args[0], (tuple, list)) else (args[0],)
    return SArr(tuple(shape), lambda *i: 0.0, "real")


def lib_ones(ex, args, kwargs, pc):
    shape = args[0] if isinstance(args[0], (tuple, list)) else (args[0],)
    return SArr(tuple(shape), lambda *i: 1.0, "real")


def lib_iinfo(ex, args, kwargs, pc):
    return Rec("iinfo", {"max": INT32_MAX, "min": -INT32_MAX - 1})


def lib_floor(ex, args, kwargs, pc):
    """jnp.floor.  On integers: identity.  On a floating value (a quotient, a product with a step, ...) the machine's
    argument is the real value plus a rounding error: floor(x + err) with |err| <= eps for an unspecified 0 < eps < 1/4 —
    floor of an exactly integral real may come out one below (or, with a positive error, stay): index arithmetic done in
    floating point is not integer arithmetic."""
    x = args[0]
    if not hasattr(ex, "_fp_eps"):
        ex._fp_eps = fresh_real("fp_eps")
        ex.extra_axioms = getattr(ex, "extra_axioms", []) + [ex._fp_eps > 0, ex._fp_eps < z3.RealVal("1/4")]
    def one(v, idx):
        if isinstance(v, int) or (is_z3(v) and v.sort() == z3.IntSort()):
            return v
        if isinstance(v, float):
            import math
            return math.floor(v)
        err = fresh_fun("fp_err", *([z3.IntSort()] * max(len(idx), 1) + [z3.RealSort()]))
        return err, v
    if isinstance(x, SArr):
        if x.dtype == "int":
            return x
        err = fresh_fun("fp_err", *([z3.IntSort()] * len(x.shape) + [z3.RealSort()]))
        qs = [z3.Int(f"fpq{k}") for k in range(len(x.shape))]
        ex.extra_axioms = ex.extra_axioms + [z3.ForAll(qs, z3.And(err(*qs) >= -ex._fp_eps, err(*qs) <= ex._fp_eps))]
        return SArr(x.shape, lambda *i: z3.ToInt(zreal(x.elem(*i)) + err(*[zint(q) for q in i])), "int")
    r = one(x, ())
    if isinstance(r, tuple):
        e = fresh_real("fp_err")
        ex.extra_axioms = ex.extra_axioms + [e >= -ex._fp_eps, e <= ex._fp_eps]
        return z3.ToInt(zreal(x) + e)
    return r


def lib_argmin(ex, args, kwargs, pc):
    """jnp.argmin of a 1-D Boolean array: the first index holding False, 0 when every entry is True (False < True; ties
    resolved to the first occurrence)"""
    a = args[0]
    if not (isinstance(a, SArr) and len(a.shape) == 1 and a.dtype == "bool"):
        raise Unsupported("argmin of a non-Boolean array")
    r = fresh_int("argmin")
    nn_ = zint(a.shape[0])
    k = z3.Int("argmin_k")
    allt = z3.ForAll([k], z3.Implies(z3.And(k >= 0, k < nn_), zbool(a.elem(k))))
    before = z3.ForAll([k], z3.Implies(z3.And(k >= 0, k < r), zbool(a.elem(k))))
    ex.extra_axioms = getattr(ex, "extra_axioms", []) + [
        z3.Or(z3.And(allt, r == 0), z3.And(r >= 0, r < nn_, z3.Not(zbool(a.elem(r))), before))]
    return r


def lib_where(ex, args, kwargs, pc):
    """jnp.where(cond, x, y), elementwise with numpy broadcasting on trailing axes"""
    if len(args) != 3:
        raise Unsupported("jnp.where with one argument")
    c_, x, y = args
    arrs = [v for v in (c_, x, y) if isinstance(v, SArr)]
    if not arrs:
        return ite(ex.truth(c_), x, y)
    big = max(arrs, key=lambda a: len(a.shape))
    rank = len(big.shape)

    def at(v, i):
        if isinstance(v, SArr):
            off = rank - len(v.shape)
            return v.elem(*[0 if (concrete(v.shape[k]) and v.shape[k] == 1) else i[off + k] for k in range(len(v.shape))])
        return v
    shape = list(big.shape)
    for v in arrs:
        off = rank - len(v.shape)
        for k, sx in enumerate(v.shape):
            if concrete(shape[off + k]) and shape[off + k] == 1:
                shape[off + k] = sx
    dt = "real" if any(isinstance(v, SArr) and v.dtype == "real" for v in (x, y)) or any(isinstance(v, float) for v in (x, y)) else (
        x.dtype if isinstance(x, SArr) else (y.dtype if isinstance(y, SArr) else "int"))
    return SArr(tuple(shape), lambda *i: ite(zbool(at(c_, i)), at(x, i), at(y, i)), dt)


def lib_finfo(ex, args, kwargs, pc):
    """jnp.finfo(dtype): eps / tiny are positive reals below 1, max is a positive real (values not fixed: the dtype of a
    symbolic array is not tracked beyond real / int)"""
    if not hasattr(ex, "_finfo"):
        e, t, m = fresh_real("finfo_eps"), fresh_real("finfo_tiny"), fresh_real("finfo_max")
        ex.extra_axioms = getattr(ex, "extra_axioms", []) + [e > 0, e < 1, t > 0, t < e, m > 1]
        ex._finfo = Rec("finfo", {"eps": e, "tiny": t, "max": m, "min": -m, "smallest_normal": t})
    return ex._finfo


def lib_take(ex, args, kwargs, pc):
    a, idx = args[0], args[1]
    axis = kwargs.get("axis", args[2] if len(args) > 2 else None)
    if axis is None:
        # numpy semantics: without an axis the *flattened* array is indexed
        if len(a.shape) > 1:
            a = flatten(ex, a)
        axis = 0
    if axis != 0:
        raise Unsupported("take along axis != 0")
    ex.takes = getattr(ex, "takes", []) + [(a, idx)]
    # jnp.take's default mode fills out-of-range rows: NaN for inexact arrays (an unconstrained value here), the minimal
    # integer for integer arrays
    nanv = z3.IntVal(-INT32_MAX - 1) if a.dtype == "int" else fresh_real("nan_fill")

    def elem(i, *r):
        j = zint(idx.elem(i))
        return ite(z3.And(j >= 0, j < zint(a.shape[0])), a.elem(j, *r), nanv)
    return SArr((idx.shape[0],) + tuple(a.shape[1:]), elem, a.dtype)


def lib_tree_map(ex, args, kwargs, pc):
    """jax.tree_util.tree_map over (nested) dicts / lists / tuples; None is an empty node; `is_leaf` honoured"""
    f, *trees = args
    is_leaf = kwargs.get("is_leaf")

    def leafp(x):
        if is_leaf is not None:
            r = ex.apply(is_leaf, [x], {}, pc)[0][0]
            if ex.truth(r) is True:
                return True
        return not isinstance(x, (dict, list, tuple)) and x is not None

    def rec(nodes):
        t0 = nodes[0]
        if leafp(t0):
            r = ex.apply(f, list(nodes), {}, pc)
            if len(r) != 1:
                raise Unsupported("fork inside tree_map")
            return r[0][0]
        if t0 is None:
            return None
        if isinstance(t0, dict):
            # JAX flattens dictionaries by *sorted* key and rebuilds them in that order
            return {k: rec([t[k] for t in nodes]) for k in sorted(t0, key=str)}
        if isinstance(t0, (list, tuple)):
            return type(t0)(rec([t[i] for t in nodes]) for i in range(len(t0)))
        raise Unsupported("tree_map node")
    return rec(trees)


def lib_tree_structure(ex, args, kwargs, pc):
    return ("treedef", args[0])


def lib_tree_unflatten(ex, args, kwargs, pc):
    """tree_unflatten(tree_structure(d), leaves) for a flat dict d: JAX's treedef lists the keys in *sorted* order"""
    treedef, leaves = args
    if isinstance(treedef, tuple) and treedef[0] == "treedef" and isinstance(treedef[1], dict) \
            and all(not isinstance(v, (dict, list, tuple)) for v in treedef[1].values()):
        keys = sorted(treedef[1], key=str)
        leaves = list(leaves)
        if len(leaves) != len(keys):
            raise PyRaise("ValueError", "tree_unflatten: wrong number of leaves")
        return dict(zip(keys, leaves))
    raise Unsupported("tree_unflatten of this structure")


def lib_tree_transpose(ex, args, kwargs, pc):
    """transposition of a dict of equal-length tuples into a list of dicts (the only form used by the loaders)"""
    outer, inner, tree = args
    if isinstance(tree, dict) and all(isinstance(v, (tuple, list)) for v in tree.values()):
        n = len(inner[1]) if isinstance(inner, tuple) and inner[0] == "treedef" else len(next(iter(tree.values())))
        return [{k: tree[k][i] for k in sorted(tree, key=str)} for i in range(n)]
    raise Unsupported("tree_transpose of this shape")


def lib_divmod(ex, args, kwargs, pc):
    a, d = args
    if isinstance(a, SArr):
        return (SArr(a.shape, lambda *i: zint(a.elem(*i)) / zint(d), "int"), SArr(a.shape, lambda *i: zint(a.elem(*i)) % zint(d), "int"))
    return (zint(a) / zint(d), zint(a) % zint(d))


_INT_BITS = {"jnp.int8": 8, "jnp.int16": 16, "jnp.uint8": -8, "jnp.uint16": -16, "np.int8": 8, "np.int16": 16}


def lib_arange(ex, args, kwargs, pc):
    if len(args) == 1:
        n = args[0]
        dt = kwargs.get("dtype")
        name = dt.name if isinstance(dt, (ModuleRef, Builtin)) else None
        if name in _INT_BITS:
            # a narrow integer type wraps silently: values are taken modulo 2**bits into the type's range
            bits = _INT_BITS[name]
            m = 2 ** abs(bits)
            off = m // 2 if bits > 0 else 0
            return SArr((n,), lambda i: (zint(i) + off) % m - off, "int")
        if name is not None and name not in ("jnp.int32", "jnp.int64", "np.int32", "np.int64", "int"):
            raise Unsupported(f"arange with dtype {name}")
        return SArr((n,), lambda i: i, "int")
    raise Unsupported("arange(start, stop, step) (float grid: bounded stand-in)")


def lib_linspace(ex, args, kwargs, pc):
    """real-arithmetic model: linspace(a, b, n, endpoint=False)[k] = a + k (b - a) / n"""
    a, b_, n_ = args[0], args[1], args[2]
    if kwargs.get("endpoint", True) is not False:
        raise Unsupported("linspace with endpoint")
    ex.obligations.append(("linspace count is positive", list(pc), zint(n_) >= 1))
    return SArr((n_,), lambda k: zreal(a) + z3.ToReal(zint(k)) * (zreal(b_) - zreal(a)) / z3.ToReal(zint(n_)), "real")


def lib_hstack(ex, args, kwargs, pc):
    arrs = list(args[0])
    if all(len(a.shape) == 2 for a in arrs):
        return lib_concatenate(ex, [arrs], {"axis": 1}, pc)
    if not all(len(a.shape) == 1 for a in arrs):
        raise Unsupported("hstack of arrays of rank > 2 or of mixed ranks")
    return lib_concatenate(ex, [arrs], {"axis": 0}, pc)


def lib_stack(ex, args, kwargs, pc):
    arrs = list(args[0])
    axis = kwargs.get("axis", args[1] if len(args) > 1 else 0)
    rank = len(arrs[0].shape)
    if axis not in (-1, rank):
        raise Unsupported("stack along a non-trailing axis")

    def elem(*j):
        last = j[-1]
        res = arrs[-1].elem(*j[:-1])
        for t in range(len(arrs) - 2, -1, -1):
            res = arrs[t].elem(*j[:-1]) if (concrete(last) and last == t) else (res if concrete(last) else ite(zint(last) == t, arrs[t].elem(*j[:-1]), res))
        return res
    return SArr(tuple(arrs[0].shape) + (len(arrs),), elem, arrs[0].dtype)


def lib_meshgrid(ex, args, kwargs, pc):
    if len(args) != 2 or kwargs.get("indexing", "xy") != "xy":
        raise Unsupported("meshgrid other than two arrays with xy indexing")
    x, y = args
    shape = (y.shape[0], x.shape[0])
    return [SArr(shape, lambda i, j: x.elem(j), "real"), SArr(shape, lambda i, j: y.elem(i), "real")]


def lib_sqrt(ex, args, kwargs, pc):
    """integer square root through the contract's ghost: ex.sqrt_of maps a perfect square to its root"""
    v = args[0]
    for sq, root in getattr(ex, "sqrt_of", []):
        if v is sq or (is_z3(v) and is_z3(sq) and v.eq(sq)):
            return root
    raise Unsupported("sqrt of a value without a declared root")


def lib_count_nonzero(ex, args, kwargs, pc):
    a = args[0]
    cnt = fresh_int("count")
    ex.counts = getattr(ex, "counts", []) + [(cnt, a)]
    return cnt


def lib_all(ex, args, kwargs, pc):
    v = args[0]
    if isinstance(v, (list, tuple)):
        ts = [ex.truth(x) for x in v]
        if all(isinstance(t, bool) for t in ts):
            return all(ts)
        return z3.And([zbool(t) for t in ts])
    raise Unsupported("jnp.all of an array")


_ROUND = {}


def narrow_cast(a, dtype):
    """value of `a` converted to `dtype`.  `float` / float64 / None: the working precision (identity, floats are reals).
    An explicitly narrower floating type (float32 / float16 / bfloat16) is an uninterpreted rounding rnd_T with
    rnd_T(0) = 0 only: a value stored in a narrower type is not the value that was given.  Integer targets truncate."""
    name = dtype.name if isinstance(dtype, (ModuleRef, Builtin)) else (dtype if isinstance(dtype, str) else None)
    if dtype is None or dtype is float or name in ("float", "jnp.float64", "jnp.float_", "np.float64"):
        if isinstance(a, SArr) and a.dtype == "int" and dtype is not None:
            # integers converted to the default float type (float32 unless 64-bit mode is on): exact only below 2**24
            if "int_to_float" not in _ROUND:
                _ROUND["int_to_float"] = z3.Function("int_to_default_float", z3.IntSort(), z3.RealSort())
            cv = _ROUND["int_to_float"]
            return SArr(a.shape, lambda *i: cv(zint(a.elem(*i))), "real")
        return a
    if name in ("jnp.float32", "jnp.float16", "jnp.bfloat16", "np.float32", "np.float16"):
        if name not in _ROUND:
            _ROUND[name] = z3.Function("round_to_" + name.split(".")[1], z3.RealSort(), z3.RealSort())
        rnd = _ROUND[name]
        if isinstance(a, SArr):
            return SArr(a.shape, lambda *i: rnd(zreal(a.elem(*i))), "real")
        return rnd(zreal(a))
    if dtype is int or name in ("int", "jnp.int32", "jnp.int64", "np.int32", "np.int64"):
        if isinstance(a, SArr):
            if a.dtype == "int":
                return a
            return SArr(a.shape, lambda *i: z3.ToInt(zreal(a.elem(*i))), "int")
        return a if (isinstance(a, int) or (is_z3(a) and a.sort() == z3.IntSort())) else z3.ToInt(zreal(a))
    raise Unsupported(f"conversion to dtype {name or dtype}")


def lib_array(ex, args, kwargs, pc):
    out = _lib_array(ex, args, kwargs, pc)
    dt = kwargs.get("dtype", args[1] if len(args) > 1 else None)
    if dt is not None and (isinstance(out, SArr) or is_z3(out) or isinstance(out, (int, float))):
        return narrow_cast(out, dt)
    return out


def _lib_array(ex, args, kwargs, pc):
    v = args[0]
    if isinstance(v, (list, tuple)) and v and all(not isinstance(x, (SArr, list, tuple, dict, Rec, bool)) and (is_z3(x) or isinstance(x, (int, float))) for x in v) \
            and any(is_z3(x) and x.sort() == z3.RealSort() or isinstance(x, float) for x in v):
        vals = list(v)

        def elem(k):
            res = zreal(vals[-1])
            for t in range(len(vals) - 2, -1, -1):
                res = zreal(vals[t]) if (concrete(k) and k == t) else (res if concrete(k) else ite(zint(k) == t, zreal(vals[t]), res))
            return res
        return SArr((len(vals),), elem, "real")
    return v


def lib_identity_decorator(ex, args, kwargs, pc):
    return args[0]


LIB = {
    "jax.device_put": lambda ex, args, kwargs, pc: args[0],      # placement only: the value is unchanged
    "jax.lax.with_sharding_constraint": lambda ex, args, kwargs, pc: args[0],     # placement only
    "jax.tree_util.tree_unflatten": lambda ex, args, kwargs, pc: lib_tree_unflatten(ex, args, kwargs, pc),
    "jax.lax.cond": lib_cond,
    "jax.lax.dynamic_slice": lib_dynamic_slice,
    "jax.lax.dynamic_update_slice": lib_dynamic_update_slice,
    "jax.random.split": lib_split,
    "jax.random.choice": lib_choice,
    "jax.random.permutation": lib_permutation,
    "jax.random.uniform": lib_uniform,
    "eqx.tree_at": lib_tree_at,
    "jnp.repeat": lib_repeat,
    "jnp.tile": lib_tile,
    "jnp.concatenate": lib_concatenate,
    "jnp.zeros": lib_zeros,
    "jnp.ones": lib_ones,
    "jnp.iinfo": lib_iinfo,
    "jnp.where": lib_where,
    "jnp.argmin": lib_argmin,
    "jnp.floor": lib_floor,
    "jnp.broadcast_to": lib_broadcast_to,
    "jnp.finfo": lib_finfo,
    "jnp.int32": "int32",
    "jnp.take": lib_take,
    "jnp.arange": lib_arange,
    "jnp.divmod": lib_divmod,
    "jnp.count_nonzero": lib_count_nonzero,
    "jnp.linspace": lib_linspace,
    "jnp.hstack": lib_hstack,
    "jnp.stack": lib_stack,
    "jnp.meshgrid": lib_meshgrid,
    "jnp.sqrt": lib_sqrt,
    "jnp.all": lib_all,
    "jnp.array": lib_array,
    "jnp.asarray": lib_array,
    "vmap": lib_vmap,
    "jax.vmap": lib_vmap,
    "jnp.argsort": lib_argsort,
    "jax.lax.top_k": lib_top_k,
    "jnp.unravel_index": lib_unravel_index,
    "jnp.linalg.norm": lib_norm,
    "jnp.sum": lib_sum,
    "jnp.minimum": lib_minimum,
    "jnp.maximum": lib_maximum,
    "jnp.clip": lib_clip,
    "jax.lax.fori_loop": lib_fori_loop,
    "jax.tree_util.tree_map": lib_tree_map,
    "jax.tree_util.tree_structure": lib_tree_structure,
    "jax.tree_util.tree_transpose": lib_tree_transpose,
    "jax.tree.map": lib_tree_map,
}

ARR_METHODS = {
    "reshape": lib_reshape_method,
    "astype": lambda ex, a, args, kwargs, pc: narrow_cast(a, args[0] if args else kwargs.get("dtype")),
    "flatten": lambda ex, a, args, kwargs, pc: flatten(ex, a),
}


def _py_len(ex, args, kwargs, pc):
    v = args[0]
    if isinstance(v, SArr):
        return v.shape[0]
    return len(v)


def _py_range(ex, args, kwargs, pc):
    if all(concrete(a) for a in args):
        return range(*args)
    raise Unsupported("range with symbolic bound")


def _py_set(ex, args, kwargs, pc):
    return list(dict.fromkeys(args[0])) if args else []


PY_BUILTINS = {
    "len": _py_len, "range": _py_range, "tuple": lambda ex, a, k, pc: tuple(a[0]) if a else (),
    "list": lambda ex, a, k, pc: list(a[0]) if a else [], "dict": lambda ex, a, k, pc: dict(a[0]) if a else dict(k),
    "set": _py_set, "zip": lambda ex, a, k, pc: list(zip(*a)), "enumerate": lambda ex, a, k, pc: list(enumerate(a[0])),
    "int": lambda ex, a, k, pc: a[0] if is_z3(a[0]) else int(a[0]), "float": lambda ex, a, k, pc: a[0],
    "round": lambda ex, a, k, pc: a[0] if is_z3(a[0]) else round(a[0]),
    "getattr": lambda ex, a, k, pc: ex.getattr(a[0], a[1]),
    "max": lambda ex, a, k, pc: max(*a) if all(concrete(x) for x in a) else z3.If(zint(a[0]) >= zint(a[1]), zint(a[0]), zint(a[1])),
    "min": lambda ex, a, k, pc: min(*a) if all(concrete(x) for x in a) else z3.If(zint(a[0]) <= zint(a[1]), zint(a[0]), zint(a[1])),
    "isinstance": None, "super": None, "str": lambda ex, a, k, pc: "<str>", "ValueError": None, "any": lambda ex, a, k, pc: any(a[0]),
    "all": lambda ex, a, k, pc: all(a[0]), "abs": lambda ex, a, k, pc: abs(a[0]),
}


# --------------------------------------------------------------------------------- proving

def prove(goal, pc=(), axioms=(), timeout_ms=10000):
    """returns ('unsat' = proved | 'sat' = refuted | 'unknown', model)"""
    s = z3.Solver()
    s.set("timeout", timeout_ms)
    for c in pc:
        s.add(zbool(c))
    for a in axioms:
        s.add(a)
    s.add(z3.Not(zbool(goal)))
    r = s.check()
    if r == z3.unsat:
        return "unsat", None
    if r == z3.sat:
        return "sat", s.model()
    return "unknown", None
