"""
Uninterpreted C^K functions for tracing real jinns code (Engine B).

`Opaque(name, n, m)` is a function R^n -> R^m built from public JAX API only:
`jax.pure_callback` (never executed while tracing) under `jax.custom_jvp` whose tangent
rule is  D^{k+1}F(x) . t  with D^{k+1}F the next opaque function.  In a jaxpr an
application shows up as a `pure_callback` equation whose callback carries
`.opaque == (F, k)`; the interpreter turns element (j, i1..ik) of its result into the atom
`F_j_d[sorted(i1..ik)](x)`.

For native replay / cross-checks the same object can be switched to a *concrete* smooth
function (seeded trigonometric + quadratic family) with `concrete(seed)`.
"""
from __future__ import annotations
import contextlib
import zlib
import numpy as np
import jax
import jax.numpy as jnp
import equinox as eqx

_MODE = {"concrete": None, "scale": 1.0}     # None: symbolic (tracing only); int: seed of the concrete family; scale: amplitude
_REGISTRY: dict = {}


@contextlib.contextmanager
def concrete(seed: int, scale: float = 1.0):
    """scale: amplitude of every member of the concrete family (tiny / huge candidates reach comparison branches that
    candidates of ordinary magnitude do not)"""
    old, olds = _MODE["concrete"], _MODE["scale"]
    _MODE["concrete"], _MODE["scale"] = int(seed), float(scale)
    jax.clear_caches()          # jitted callees cache their trace: never reuse a trace across modes
    try:
        yield
    finally:
        _MODE["concrete"], _MODE["scale"] = old, olds
        jax.clear_caches()


def registry():
    return _REGISTRY


class Opaque:
    """uninterpreted C^K function R^n -> R^m; D[k](x) has shape (m,) + (n,)*k"""

    def __init__(self, name, n, m, K=4, positive=False):
        self.name, self.n, self.m, self.K = name, int(n), int(m), K
        self.positive = positive
        self.D = {}
        for k in range(K, -1, -1):
            self.D[k] = self._mk(k)
        _REGISTRY[name] = self

    def __hash__(self):
        return hash(("Opaque", self.name, self.n, self.m))

    def __eq__(self, o):
        return isinstance(o, Opaque) and (o.name, o.n, o.m) == (self.name, self.n, self.m)

    def _mk(self, k):
        shape = (self.m,) + (self.n,) * k

        def cb(x):                                   # never executed: tracing only
            raise RuntimeError(f"opaque function {self.name} (order {k}) evaluated")

        cb.opaque = (self, k)

        def prim(x):
            return jax.pure_callback(cb, jax.ShapeDtypeStruct(shape, x.dtype), x,
                                     vmap_method="broadcast_all")

        if k == self.K:
            return prim
        f = jax.custom_jvp(prim)

        @f.defjvp
        def _(primals, tangents):
            (x,), (t,) = primals, tangents
            nxt = self.D[k + 1]
            return f(x), jnp.tensordot(nxt(x), t, axes=([-1], [0]))

        return f

    # ---- concrete family --------------------------------------------------------
    def concrete_fn(self, seed):
        rng = np.random.default_rng(zlib.crc32(f"{self.name}/{self.n}/{self.m}".encode()) + 7919 * seed)
        R = 3
        W = jnp.asarray(rng.uniform(-1.0, 1.0, size=(self.m, R, self.n)))
        b = jnp.asarray(rng.uniform(-1.0, 1.0, size=(self.m, R)))
        a = jnp.asarray(rng.uniform(0.3, 1.0, size=(self.m, R)) * rng.choice([-1, 1], size=(self.m, R)))
        Q = jnp.asarray(rng.uniform(-0.3, 0.3, size=(self.m, self.n, self.n)))
        c = jnp.asarray(rng.uniform(-0.5, 0.5, size=(self.m,)))
        pos = self.positive
        scale = _MODE["scale"]

        def f(y):
            y = jnp.asarray(y)
            s = jnp.sum(a * jnp.sin(jnp.einsum("mrn,n->mr", W, y) + b), axis=1)
            q = 0.5 * jnp.einsum("mij,i,j->m", Q, y, y)
            out = s + q + c
            if pos:
                out = 4.0 + out / (1.0 + 0.1 * jnp.sum(y * y))
            return out * scale

        return f

    def deriv_value(self, seed, k, y):
        """numeric D^k F(y), shape (m,)+(n,)*k, by nested forward-mode on the concrete family"""
        f = self.concrete_fn(seed)
        g = f
        for _ in range(k):
            g = jax.jacfwd(g)
        return np.asarray(g(jnp.asarray(y, dtype=jnp.float64)))

    def __call__(self, x):
        assert x.shape[-1] == self.n, (self.name, x.shape, self.n)
        seed = _MODE["concrete"]
        if seed is not None:
            f = self.concrete_fn(seed)
            if x.ndim == 1:
                return f(x)
            return jnp.vectorize(f, signature="(n)->(m)")(x)
        return self.D[0](x)


class CalleePrecondition(Exception):
    """the code under contract called a user-supplied (uninterpreted) function with arguments outside that function's
    declared domain — a violation by the caller, not a checker error"""


class OpaqueFn:
    """opaque function of several array arguments with an array result.
    F(*args) = reshape(Opaque(concat(flatten(args))))"""

    def __init__(self, name, in_shapes, out_shape, K=4, positive=False):
        self.in_shapes = [tuple(s) for s in in_shapes]
        self.out_shape = tuple(out_shape)
        n = sum(int(np.prod(s)) for s in self.in_shapes)
        m = int(np.prod(self.out_shape)) if self.out_shape else 1
        self.F = Opaque(name, n, m, K=K, positive=positive)
        self.name = name

    def __call__(self, *args):
        flat = [jnp.reshape(jnp.asarray(a, dtype=float), (-1,)) for a in args]
        for a, s in zip(args, self.in_shapes):
            if tuple(jnp.shape(a)) != s:
                raise CalleePrecondition(f"user function {self.name} declared for an argument of shape {s} is called with "
                                         f"shape {tuple(jnp.shape(a))}")
        y = self.F(jnp.concatenate(flat)) if flat else self.F(jnp.zeros((0,)))
        return jnp.reshape(y, self.out_shape)


class OpaqueMLP(eqx.Module):
    """An `mlp` for jinns.utils._pinn.PINN: x -> F(concat(x, theta)); `theta` is the
    trainable leaf, so derivatives w.r.t. network parameters are jet atoms too."""
    theta: jax.Array
    F: Opaque = eqx.field(static=True)

    def __call__(self, x):
        return self.F(jnp.concatenate([x, self.theta]))


class OpaqueLayer(eqx.Module):
    """one per-dimension embedding of a separable network: R^1 -> R^(r*m)"""
    theta: jax.Array
    F: Opaque = eqx.field(static=True)

    def __call__(self, x):
        return self.F(jnp.concatenate([x, self.theta]))
