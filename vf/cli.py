"""
./check <PID> [--tier quick|thorough] [--replay path] [--only substr] [--jobs N]

Exit codes: 0 every obligation discharged (or only listed known findings fail);
1 a failed obligation (printed as `VIOLATION property=<id> replay=<path>`);
2 undecided; 3 checker crash / back-end disagreement / vacuity guard.
"""
from __future__ import annotations
import argparse
import importlib
import json
import os
import sys
import time
import traceback

VERIF = os.path.dirname(os.path.dirname(os.path.abspath(__file__)))
sys.path.insert(0, VERIF)
os.environ.setdefault("JAX_PLATFORMS", "cpu")
os.environ.setdefault("XLA_FLAGS", "--xla_force_host_platform_device_count=1")
os.environ.setdefault("OMP_NUM_THREADS", "1")
os.environ.setdefault("TF_CPP_MIN_LOG_LEVEL", "3")
os.environ.setdefault("JAX_TRACEBACK_FILTERING", "off")


def _init_worker():
    import warnings
    warnings.filterwarnings("ignore")
    import jax
    jax.config.update("jax_enable_x64", True)


def _load(pid):
    return importlib.import_module("contracts." + pid.lower())


def _run_one(args):
    pid, tier, idx, seed = args
    try:
        _init_worker()
        mod = _load(pid)
        obs = mod.obligations(tier)
        return dict(obs[idx].run(seed))
    except Exception:
        return {"name": f"{pid}#{idx}", "status": "error", "detail": "worker crash: " + traceback.format_exc(limit=10),
                "backend": None, "solver_s": 0.0, "time_s": 0.0, "functions": []}


def known_findings():
    path = os.path.join(VERIF, "known_findings.txt")
    known, fixed = [], []
    if os.path.exists(path):
        for line in open(path):
            line = line.strip()
            if not line or line.startswith("#"):
                continue
            if line.startswith("known:"):
                d = {}
                rest = line[len("known:"):].strip()
                parts = rest.split(None, 2)
                for p in parts[:2]:
                    k, _, v = p.partition("=")
                    d[k] = v
                d["what"] = parts[2] if len(parts) > 2 else ""
                known.append(d)
            elif line.startswith("fixed:"):
                fixed.append(line)
    return known, fixed


def main(argv=None):
    ap = argparse.ArgumentParser()
    ap.add_argument("pid")
    ap.add_argument("--tier", default=os.environ.get("VERIF_TIER", "quick"), choices=["quick", "thorough"])
    ap.add_argument("--replay", default=None)
    ap.add_argument("--only", default=None)
    ap.add_argument("--jobs", type=int, default=int(os.environ.get("VERIF_JOBS", "16")))
    ap.add_argument("--list", action="store_true")
    a = ap.parse_args(argv)
    pid = a.pid.upper()
    seed = int(os.environ.get("VERIF_SEED", "0") or 0)
    t0 = time.time()
    _init_worker()
    mod = _load(pid)
    if hasattr(mod, "main"):
        return mod.main(a, seed)
    obs = mod.obligations(a.tier)
    idxs = list(range(len(obs)))
    if a.replay:
        rec = json.load(open(a.replay if os.path.isabs(a.replay) else os.path.join(VERIF, a.replay)))
        idxs = [i for i in idxs if obs[i].name == rec["obligation"]]
        if not idxs:
            print(f"replay: obligation {rec['obligation']} not found at tier {a.tier}; retrying thorough")
            obs = mod.obligations("thorough")
            a.tier = "thorough"
            idxs = [i for i in range(len(obs)) if obs[i].name == rec["obligation"]]
    if a.only:
        idxs = [i for i in idxs if a.only in obs[i].name]
    if a.list:
        for i in idxs:
            print(obs[i].name)
        return 0
    if not idxs:
        print(f"checker error: no obligation generated for {pid}")
        return 3
    results = run_pool(pid, a.tier, idxs, seed, a.jobs)
    return report(pid, a.tier, seed, mod, results, time.time() - t0, replay_mode=bool(a.replay),
                  partial=bool(a.only or a.replay or _overridden()))


def _overridden():
    from vf.paths import OVERRIDDEN
    return OVERRIDDEN


def run_pool(pid, tier, idxs, seed, jobs):
    jobs = max(1, min(jobs, len(idxs)))
    work = [(pid, tier, i, seed) for i in idxs]
    if jobs == 1:
        return [_run_one(w) for w in work]
    import multiprocessing as mp
    ctx = mp.get_context("spawn")
    with ctx.Pool(jobs, maxtasksperchild=None) as pool:
        return list(pool.imap(_run_one, work, chunksize=1))


def report(pid, tier, seed, mod, results, wall, replay_mode=False, partial=False):
    from vf.oblig import write_replay
    known, fixed = known_findings()
    known = [k for k in known if k.get("property") == pid]
    n = len(results)
    disch = [r for r in results if r["status"] == "discharged"]
    viol = [r for r in results if r["status"] == "violated"]
    undec = [r for r in results if r["status"] == "undecided"]
    errs = [r for r in results if r["status"] == "error"]
    bounded = [r for r in results if r.get("bounded")]
    lines = []
    new_viol, known_hit = [], []
    for r in viol:
        k = next((k for k in known if k.get("obligation") and _match(k["obligation"], r["name"])), None)
        if k is not None:
            known_hit.append((k, r))
        else:
            new_viol.append(r)
    for k, r in known_hit:
        lines.append(f"KNOWN-FINDING: property={pid} {r['name']}: {k.get('what', '')}")
    for r in new_viol:
        path = write_replay(pid, r)
        rel = os.path.relpath(path, VERIF)
        nf = "" if (r.get("replay") or {}).get("native_disagrees") else " no-failing-input-found"
        lines.append(f"VIOLATION property={pid} replay={rel} obligation={r['name']}{nf}")
        lines.append(f"  {r.get('detail', '')[:600]}")
        rp = r.get("replay") or {}
        if rp.get("native_disagrees"):
            lines.append(f"  native replay: inputs={json.dumps(rp.get('inputs'), default=str)[:400]}")
            lines.append(f"    native={str(rp.get('native'))[:300]}  expected={str(rp.get('expected'))[:300]}")
    for r in undec:
        lines.append(f"UNDECIDED {r['name']}: {r.get('detail', '')[:300]}")
    for r in errs:
        lines.append(f"CHECKER-ERROR {r['name']}: {r.get('detail', '')[:1500]}")
    backends = {}
    for r in disch:
        backends[r.get("backend") or "?"] = backends.get(r.get("backend") or "?", 0) + 1
    solver_s = sum(r.get("solver_s", 0.0) for r in results)
    funcs = sorted({f for r in results for f in r.get("functions", [])})
    canaries = sum(1 for r in results if r.get("canary") == "refuted")
    cross = sum(1 for r in results if r.get("crosscheck") == "ok")
    dfn = {k: sum((r.get("definedness") or {}).get(k, 0) for r in results)
           for k in ("shared_with_contract", "to_prove", "proved", "undecided", "not_reproduced")}
    print(f"[{pid}] tier={tier} obligations={n} discharged={len(disch)} violated={len(viol)} "
          f"(known={len(known_hit)}) undecided={len(undec)} errors={len(errs)} "
          f"canaries_refuted={canaries} crosschecks_ok={cross} backends={backends} "
          f"definedness={dfn['proved']}/{dfn['to_prove']} solver_s={solver_s:.1f} wall_s={wall:.1f}")
    for l in lines:
        print(l)
    meta = getattr(mod, "META", {})
    linecov = line_coverage(funcs, results)
    if os.environ.get("VERIF_DUMP_LINES"):
        allc = {}
        for r in results:
            for f, ls in (r.get("lines") or {}).items():
                allc.setdefault(f, set()).update(ls)
        with open(os.environ["VERIF_DUMP_LINES"], "w") as fh:
            json.dump({k: sorted(v) for k, v in allc.items()}, fh)
    if not partial:
        proved = [r for r in disch if not r.get("bounded")]
        all_ok = (not viol and not undec and not errs)
        level = "proof" if all_ok else "other"
        cov = {
            "obligations": n - len(bounded),
            "discharged": len(proved),
            "checker_cmd": f"./check {pid} --tier {tier}",
            "trusted_base": meta.get("trusted_base", []),
            "functions_under_contract": funcs,
            "backends": backends,
            "solver_time_s": round(solver_s, 3),
            "canaries_refuted": canaries,
            "interpreter_crosschecks_ok": cross,
            "definedness_conditions": {
                "meaning": "divisions / square roots performed by the code: shared with the contract's own expression "
                           "(same partiality), or proved defined under the precondition; 'undecided' / 'not_reproduced' "
                           "ones were searched natively without finding a disagreement and are assumptions",
                **dfn},
            "bounded_standins": {"count": len(bounded),
                                 "passed": sum(1 for r in bounded if r["status"] == "discharged"),
                                 "names": [r["name"] for r in bounded][:50]},
            "bounded_in": meta.get("bounded_in", {}),
            "unbounded_in": meta.get("unbounded_in", []),
            "undecided": [r["name"] for r in undec],
            "known_findings_hit": [r["name"] for _, r in known_hit],
            "line_coverage_of_functions_under_contract": linecov,
            "samples": [{"obligation": r["name"], "backend": r.get("backend"), "impl": r.get("sample", "")}
                        for r in results[:: max(1, n // 6)]][:8],
            "explanation": ("every obligation generated from /repo's current source was discharged"
                            if all_ok else
                            "not a proof on this tree: " + "; ".join(
                                [f"{len(viol)} obligation(s) refuted" if viol else "",
                                 f"{len(undec)} undecided" if undec else "",
                                 f"{len(errs)} checker error(s)" if errs else ""]).strip("; ")),
        }
        ev = {"property_id": pid, "tier": tier, "seed": seed, "level": level, "coverage": cov,
              "assumptions": meta.get("assumptions", []), "wall_s": round(wall, 2),
              "violations": len(new_viol)}
        os.makedirs(os.path.join(VERIF, "evidence"), exist_ok=True)
        with open(os.path.join(VERIF, "evidence", f"{pid}.json"), "w") as f:
            json.dump(ev, f, indent=1, default=str)
    if errs:
        return 3
    if new_viol:
        return 1
    if undec:
        return 2
    return 0


def line_coverage(funcs, results):
    """per function under contract: executable statements of its body that no obligation of this run executed
    (Engine B: python lines run while tracing; Engine A: statements executed symbolically)"""
    import ast
    covered = {}
    for r in results:
        for f, ls in (r.get("lines") or {}).items():
            covered.setdefault(f, set()).update(ls)
    out, cache = {}, {}
    for q in funcs:
        if ":" not in q:
            continue
        modname, qual = q.split(":", 1)
        from vf.paths import REPO
        path = REPO + "/" + modname.replace(".", "/") + ".py"
        if not os.path.exists(path):
            path = REPO + "/" + modname.replace(".", "/") + "/__init__.py"
            if not os.path.exists(path):
                continue
        if path not in cache:
            try:
                cache[path] = ast.parse(open(path).read())
            except Exception:
                continue
        node = cache[path]
        ok = True
        for part in qual.split("."):
            nxt = None
            for ch in ast.walk(node):
                if isinstance(ch, (ast.FunctionDef, ast.ClassDef)) and ch.name == part and ch is not node:
                    nxt = ch
                    break
            if nxt is None:
                ok = False
                break
            node = nxt
        if not ok or not isinstance(node, ast.FunctionDef):
            continue
        stmts = {}
        for ch in ast.walk(node):
            if isinstance(ch, ast.stmt) and ch is not node and not (isinstance(ch, ast.Expr) and isinstance(ch.value, ast.Constant)):
                if not isinstance(ch, (ast.FunctionDef, ast.ClassDef)):
                    body = getattr(ch, "body", None)
                    end = (body[0].lineno - 1) if isinstance(body, list) and body else getattr(ch, "end_lineno", ch.lineno)
                    stmts[ch.lineno] = max(ch.lineno, end)      # header span of compound statements
        cov = covered.get(path, set())
        un = sorted(l for l, e in stmts.items() if not any(x in cov for x in range(l, e + 1)))
        out[q] = {"executable_statements": len(stmts), "covered": len(stmts) - len(un), "uncovered_lines": un[:40]}
    return out


def _match(pattern, name):
    import fnmatch
    return fnmatch.fnmatchcase(name, pattern)


if __name__ == "__main__":
    sys.exit(main())
