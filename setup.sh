#!/bin/sh
# Build the overlay venv (z3-solver + cvc5 wheels on top of /venv's site-packages). Offline.
set -e
cd "$(dirname "$0")"
if [ ! -x .venv/bin/python ] || ! .venv/bin/python -c "import z3, cvc5" 2>/dev/null; then
  rm -rf .venv
  /venv/bin/python -m venv .venv
  PIP_NO_INDEX=1 .venv/bin/pip install -q --no-index --find-links /opt/veriftools/wheels z3-solver cvc5 jsonschema
  echo "import site; site.addsitedir('/venv/lib/python3.12/site-packages')" > .venv/lib/python3.12/site-packages/_repo.pth
fi
JAX_PLATFORMS=cpu .venv/bin/python -W ignore -c "import z3, cvc5, jax, equinox, jinns; print('setup ok', z3.get_version_string(), jax.__version__)"
