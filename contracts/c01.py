"""
C01 — differential operators return the mathematical operator's value.

Functions under contract (jinns/loss/_operators.py): _laplacian_rev, _div_rev,
_vectorial_laplacian (both branches), _u_dot_nabla_times_u_rev, and the forward-mode _laplacian_fwd, _div_fwd,
_u_dot_nabla_times_u_fwd (through contracts.c11.operator_ob: a real SPINN over uninterpreted embeddings, every grid
entry equals the operator of the pointwise twin); re-exports of jinns.loss.
Postconditions are the textbook definitions; the field is an uninterpreted C^4 function, the
point, the time and the network parameters are symbolic, d in 1..4, with and without time.
"""
from contracts.common import *
import jinns.loss._operators as ops
import jinns.loss as jl

META = dict(
    trusted_base=TRUSTED_B,
    bounded_in={"spatial dimension d": "1..4 (the property's own range)", "outputs": "1..4",
                "network parameter vector": "length 1 (symbolic value)"},
    unbounded_in=["evaluation point x", "time t", "network parameters theta", "the field (any C^4 function)"],
    assumptions=["mixed partials commute (C^2 suffices for these operators)"],
)


def _net(tag, d, with_t, m):
    return Net(f"N{tag}", "nonstatio_PDE" if with_t else "statio_PDE", d + (1 if with_t else 0), m)


def _call(f, net, with_t, **kw):
    if with_t:
        return lambda t, x, th: f(t, x, net.u, net.params(th), **kw)
    return lambda x, th: f(None, x, net.u, net.params(th), **kw)


def _inputs(d, with_t):
    return ([Inp("t", (1,))] if with_t else []) + [Inp("x", (d,)), Inp("th", (1,))]


def _unpack(args, with_t):
    if with_t:
        t, x, th = args
        return [t[0]] + pts(x), th, 1
    x, th = args
    return pts(x), th, 0


def lap(d, with_t):
    def build():
        net = _net("lap", d, with_t, 1)
        def spec(*a):
            pt, th, o = _unpack(a, with_t)
            n = net.jet(th)
            return sum((n(0, pt, (o + i, o + i)) for i in range(d)), P.ZERO)
        def canary(*a):
            pt, th, o = _unpack(a, with_t)
            n = net.jet(th)
            return sum((n(0, pt, (o + i, o + i)) for i in range(1, d)), P.ZERO) + (n(0, pt, (0, 0)) if with_t else P.ZERO) \
                if (d > 1 or with_t) else n(0, pt, (o,))
        return dict(fn=_call(ops._laplacian_rev, net, with_t), inputs=_inputs(d, with_t), spec=spec, canary=canary)
    return EqObligation(f"C01/_laplacian_rev/ensures[d={d},t={int(with_t)}]", build,
                        ["jinns.loss._operators:_laplacian_rev"])


def div(d, with_t):
    def build():
        net = _net("div", d, with_t, d)
        def spec(*a):
            pt, th, o = _unpack(a, with_t)
            n = net.jet(th)
            return sum((n(i, pt, (o + i,)) for i in range(d)), P.ZERO)
        def canary(*a):
            pt, th, o = _unpack(a, with_t)
            n = net.jet(th)
            return sum((n(i, pt, (o + (i + 1) % d,)) for i in range(d)), P.ZERO) if d > 1 else n(0, pt, ())
        return dict(fn=_call(ops._div_rev, net, with_t), inputs=_inputs(d, with_t), spec=spec, canary=canary)
    return EqObligation(f"C01/_div_rev/ensures[d={d},t={int(with_t)}]", build, ["jinns.loss._operators:_div_rev"])


def veclap(d, with_t, m, explicit, modular, ssl=None):
    """ssl: the network carries a non-default `slice_solution` (s_[a:b] of mo raw outputs).  The wrapper's call returns
    all raw outputs (slice_solution is applied by the loss terms, not by the wrapper), so component j of the field the
    operator sees is raw output j, whatever the slice."""
    off = 0
    def build():
        if ssl is None:
            net = _net("vl", d, with_t, m)
        else:
            net = Net("Nvls", "nonstatio_PDE" if with_t else "statio_PDE", d + (1 if with_t else 0), ssl[2], slice_solution=jnp.s_[ssl[0]:ssl[1]])
        kw = dict(u_vec_ndim=m) if explicit else {}
        f = ops._vectorial_laplacian
        if modular:
            # callee replaced by its contract (the C01 postcondition of _laplacian_rev, as a function)
            def lap_contract(t, x, u, params):
                g = (lambda x_: u(x_, params)[0]) if t is None else (lambda x_: u(t, x_, params)[0])
                return sum(jax.grad(lambda x_, i=i: jax.grad(g)(x_)[i])(x)[i] for i in range(x.shape[0]))
            def f(*a, **k):
                old = ops._laplacian_rev
                ops._laplacian_rev = lap_contract
                try:
                    return old_vl(*a, **k)
                finally:
                    ops._laplacian_rev = old
            old_vl = ops._vectorial_laplacian
        def spec(*a):
            pt, th, o = _unpack(a, with_t)
            n = net.jet(th)
            return arr(lambda j: sum((n(off + j[0], pt, (o + i, o + i)) for i in range(d)), P.ZERO), (m,))
        def canary(*a):
            pt, th, o = _unpack(a, with_t)
            n = net.jet(th)
            return arr(lambda j: sum((n(off, pt, (o + i, o + i)) for i in range(d)), P.ZERO), (m,)) if m > 1 else \
                arr(lambda j: n(0, pt, (o,)), (m,))
        return dict(fn=_call(f, net, with_t, **kw), inputs=_inputs(d, with_t), spec=spec, canary=canary)
    tag = "modular" if modular else "closure"
    if ssl is not None:
        tag += f".slice_solution_{ssl[0]}:{ssl[1]}_of_{ssl[2]}"
    return EqObligation(f"C01/_vectorial_laplacian/ensures.{tag}[d={d},t={int(with_t)},m={m},explicit={int(explicit)}]",
                        build, ["jinns.loss._operators:_vectorial_laplacian", "jinns.loss._operators:_laplacian_rev"])


def adv(with_t):
    d = 2
    def build():
        net = _net("adv", d, with_t, 2)
        def spec(*a):
            pt, th, o = _unpack(a, with_t)
            n = net.jet(th)
            return arr(lambda j: n(0, pt) * n(j[0], pt, (o,)) + n(1, pt) * n(j[0], pt, (o + 1,)), (2,))
        def canary(*a):
            pt, th, o = _unpack(a, with_t)
            n = net.jet(th)
            return arr(lambda j: n(0, pt) * n(0, pt, (o + j[0],)) + n(1, pt) * n(1, pt, (o + j[0],)), (2,))
        return dict(fn=_call(ops._u_dot_nabla_times_u_rev, net, with_t), inputs=_inputs(d, with_t), spec=spec, canary=canary)
    return EqObligation(f"C01/_u_dot_nabla_times_u_rev/ensures[d=2,t={int(with_t)}]", build,
                        ["jinns.loss._operators:_u_dot_nabla_times_u_rev"])


def as_field(which, with_t):
    """the operator's result is the mathematical field, *as a function of the point*: its Jacobian with respect to x is the
    Jacobian of the definition (operators are composed: div / Laplacian of (u . grad) u, ...).  d = 2."""
    d = 2
    m = {"adv": 2, "div": 2, "lap": 1}[which]
    f = {"adv": ops._u_dot_nabla_times_u_rev, "div": ops._div_rev, "lap": ops._laplacian_rev}[which]
    def build():
        net = _net("fld" + which, d, with_t, m)
        base = _call(f, net, with_t)
        def fn(*a):
            xi = 1 if with_t else 0
            return jax.jacfwd(lambda x: jnp.reshape(base(*(a[:xi] + (x,) + a[xi + 1:])), (-1,)))(a[xi])
        def value(pt, th, o):
            n = net.jet(th)
            if which == "adv":
                return [n(0, pt) * n(j, pt, (o,)) + n(1, pt) * n(j, pt, (o + 1,)) for j in range(2)]
            if which == "div":
                return [sum((n(i, pt, (o + i,)) for i in range(d)), P.ZERO)]
            return [sum((n(0, pt, (o + i, o + i)) for i in range(d)), P.ZERO)]
        def spec(*a, wrong=False):
            pt, th, o = _unpack(a, with_t)
            vals = value(pt, th, o)
            if wrong:       # the transporting / differentiated factor frozen: the derivative misses a term
                n = net.jet(th)
                return arr(lambda j: P.diff(vals[j[0]], pt[o + j[1]]) + n(0, pt, (o + j[1],)), (len(vals), d))
            return arr(lambda j: P.diff(vals[j[0]], pt[o + j[1]]), (len(vals), d))
        return dict(fn=fn, inputs=_inputs(d, with_t), spec=spec, canary=lambda *a: spec(*a, wrong=True))
    nm = {"adv": "_u_dot_nabla_times_u_rev", "div": "_div_rev", "lap": "_laplacian_rev"}[which]
    return EqObligation(f"C01/{nm}/ensures.jacobian_of_the_returned_field[d=2,t={int(with_t)}]", build, ["jinns.loss._operators:" + nm])


def adv_raises(d, with_t):
    def build():
        net = _net("advr", d, with_t, d)
        return dict(fn=_call(ops._u_dot_nabla_times_u_rev, net, with_t), inputs=_inputs(d, with_t))
    return RaisesObligation(f"C01/_u_dot_nabla_times_u_rev/raises[d={d},t={int(with_t)}]", build, NotImplementedError,
                            ["jinns.loss._operators:_u_dot_nabla_times_u_rev"])


def reexports(seed):
    bad = [n for n in ("_div_rev", "_laplacian_rev", "_vectorial_laplacian", "_div_fwd", "_laplacian_fwd")
           if getattr(jl, n, None) is not getattr(ops, n)]
    if bad:
        return dict(status="violated", failure="reexport", backend="identity",
                    detail=f"jinns.loss re-exports differ from jinns.loss._operators for {bad}",
                    replay={"native_disagrees": True, "native": f"jinns.loss.{bad[0]} is not _operators.{bad[0]}",
                            "expected": "same function object"})
    return dict(status="discharged", backend="identity")


def obligations(tier):
    obs = []
    for with_t in (False, True):
        for which in ("adv", "div", "lap"):
            obs.append(as_field(which, with_t))
    dims = (1, 2, 3, 4)
    for with_t in (False, True):
        for d in dims:
            obs.append(lap(d, with_t))
            obs.append(div(d, with_t))
            if tier == "thorough" or d in (2, 3):
                obs.append(veclap(d, with_t, d, False, False))
                obs.append(veclap(d, with_t, d, False, True))
            if tier == "thorough":
                m2 = d + 1 if d < 4 else 2
                obs.append(veclap(d, with_t, m2, True, False))
                obs.append(veclap(d, with_t, m2, True, True))
            elif d == 2:
                obs.append(veclap(d, with_t, 3, True, False))
        obs.append(adv(with_t))
        obs.append(veclap(2, with_t, 2, True, False, ssl=(1, 3, 3)))      # a field that is outputs 1..2 of a 3-output network
        obs.append(div(5, with_t))                                        # beyond the dimensions of the library's own equations
        obs.append(lap(5, with_t))
        for d in (1, 3):
            obs.append(adv_raises(d, with_t))
    obs.append(FnObligation("C01/jinns.loss/reexports", reexports, ["jinns.loss.__init__"]))
    # the forward-mode (separable-network) operators exported by jinns.loss are operators of the property too: their
    # contract is the C11 one (grid entry == the mathematical operator applied to the pointwise twin, by symbolic
    # differentiation) — same obligations, reported under C01
    from contracts import c11
    rB = [(1, 2), (2, 1)] if tier == "quick" else [(1, 1), (1, 2), (2, 1), (2, 2)]
    for with_t in (False, True):
        for dx in (1, 2, 3):
            if with_t and dx == 3:
                continue
            for (r, B) in rB:
                if (dx + with_t) == 3 and r == 2 and B == 2:
                    continue
                whiches = ["lap", "div"] + (["veclap"] if dx >= 2 else []) + (["adv"] if dx == 2 else [])
                for which in whiches:
                    o = c11.operator_ob(which, with_t, dx, r, B)
                    o.name = o.name.replace("C11/", "C01/fwd/").replace("grid_entry_equals_pointwise", "ensures.grid_entry_is_operator_value")
                    obs.append(o)
    return obs
