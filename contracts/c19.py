"""
C19 — validation is called on schedule; early stopping and best parameters follow it.
Under contract: the validation block of _one_iteration, break_fun, ValidationLoss.__call__.
Step contract of solve with an uninterpreted validation module V(state, params) -> (state', stop, crit, improved);
ValidationLoss with uninterpreted loss and generators; the counter invariant and the stop lemma by z3.
"""
import time
import z3
from contracts.common import *
from contracts.solve_util import *
from contracts import c07
from jinns.utils._containers import OptimizationExtraContainer
from jinns.validation._validation import ValidationLoss

META = dict(
    trusted_base=c07.META["trusted_base"],
    bounded_in=dict(c07.META["bounded_in"], **{"call_every": "1..3 (every i in [0, n_iter))"}),
    unbounded_in=c07.META["unbounded_in"] + ["validation outcomes (uninterpreted module)", "patience, counter, best value (symbolic)",
                                               "length of the outcome sequence (invariant + lemma)"],
    assumptions=[],
)
SM = "jinns.solver._solve:"
VM = "jinns.validation._validation:"


def _capture_val(cfg, n_iter, k):
    so_ = make_opaques(c07.P_)
    cap = Capture()
    def f(theta, a, s, sp, so, w, ost, vs):
        kw = c07._solve_kwargs(cfg, theta, a, s, sp, so, w, ost, n_iter)
        cap.solve(validation=OVal(vs, call_every=k), **kw)
        return 0
    jax.make_jaxpr(f)(jnp.zeros(c07.P_), jnp.zeros(()), jnp.zeros(KS), jnp.zeros(KS), jnp.zeros(KS), jnp.zeros(1), jnp.zeros(so_), jnp.zeros(KS))
    return cap, so_


def val_step(cfg, n_iter, i, k, k_carry=None):
    """k: the period of the module given to solve; k_carry: the period of the module carried at iteration i (a module may
    return a successor with another period: the schedule follows the carried module's)"""
    k0, k = k, (k_carry or k)
    def build():
        cap, so_ = _capture_val(cfg, n_iter, k0)
        avals, treedef, body = cap.rec["avals"], cap.rec["treedef"], cap.rec["body"]
        inputs = c07.carry_inputs(avals, i)
        def mk(leaves, conc):
            cr = jax.tree_util.tree_unflatten(treedef, list(leaves))
            cr = (conc(i, avals[0][1]),) + tuple(cr[1:])
            return eqx.tree_at(lambda c_: c_[5].call_every, cr, conc(k, np.int64))
        def fn(*leaves):
            with rar_contract(bool(cfg.get("rar"))):
                return body(mk(leaves, lambda v, dt: jnp.asarray(v, dtype=dt)))
        def spec(*leaves, wrong=False):
            cr = jax.tree_util.tree_unflatten(treedef, list(leaves))
            def hook(p1, th1, a1, extra, val, crit):
                invoked = (i % k == 0) if not wrong else not (i % k == 0)
                if invoked:
                    z = pts(val.state) + pts(th1) + [a1[()]]
                    y = c07.call("Val", z, 3)
                    val1 = OVal(arr(lambda j: c07.call("Vst", z, KS)[j[0]], (KS,)), call_every=k)
                    stop, improved = P.b_lt(P.ZERO, y[1]), P.b_lt(P.ZERO, y[2])
                    crit1 = crit.copy(); crit1[i] = y[0]
                    p = p1()
                    best = Params(nn_params=arr(lambda j: improved * p.nn_params[j] + (P.ONE - improved) * extra.best_val_params.nn_params[j], (c07.P_,)),
                                  eq_params={"a": arr(lambda _: improved * p.eq_params["a"][()] + (P.ONE - improved) * extra.best_val_params.eq_params["a"][()], ())})
                    return OptimizationExtraContainer(0, best, stop), val1, crit1
                crit1 = crit.copy(); crit1[i] = crit[i - 1]
                return OptimizationExtraContainer(0, extra.best_val_params, False), OVal(val.state, call_every=k), crit1
            return c07.expected_step(cfg, n_iter, i, so_, cr, validation=hook)
        return dict(fn=fn, spec=spec, canary=(lambda *z: spec(*z, wrong=True)) if i > 0 else None, inputs=inputs)
    ob = EqObligation(f"C19/_one_iteration/ensures.validation_schedule[i={i},call_every={k0}{'' if k_carry is None else ',carried_module_call_every=' + str(k)}]" + c07.cfg_tag(cfg, n_iter), build,
                      [SM + "solve._one_iteration"])
    return ob


def validation_loss_default_state_ob():
    """first invocation of a module built with its default state (best value +inf, counter 0), in the working precision of
    the check (x64): a finite validation loss is a strict new minimum and the new best value *is* that loss"""
    def build():
        so_ = make_opaques(c07.P_)
        nb = nb_of(False, False)
        def fn(theta, a, vs, w):
            v = ValidationLoss(loss=OLoss(w=w, nb=nb), validation_data=OGen(vs, None, "v"), call_every=2, early_stopping=True, patience=3)
            new, stop, val, improved = v(Params(nn_params=theta, eq_params={"a": a}))
            return (new.counter, new.best_val_loss, stop, val, improved)
        def spec(theta, a, vs, w, wrong=False):
            largs = pts(theta) + [a[()]] + pts(w) + c07.call("Bv", pts(vs), B)
            val = P.app(f"L{nb}", 0, (), largs)
            return (arr(lambda _: P.ZERO, ()), arr(lambda _: val if not wrong else val + 1, ()), arr(lambda _: P.ZERO, ()), arr(lambda _: val, ()),
                    arr(lambda _: P.ONE, ()))
        return dict(fn=fn, spec=spec, canary=lambda *z: spec(*z, wrong=True),
                    inputs=[Inp("theta", (c07.P_,)), Inp("a", ()), Inp("vs", (KS,)), Inp("w", (1,))])
    return EqObligation("C19/ValidationLoss.__call__/ensures.first_invocation_from_the_default_state", build, [VM + "ValidationLoss.__call__"])


def validation_loss_ob(with_param, with_obs):
    def build():
        so_ = make_opaques(c07.P_)
        nb = nb_of(with_param, with_obs)
        def fn(theta, a, vs, sp, so, w, best, cnt, pat, es):
            v = ValidationLoss(loss=OLoss(w=w, nb=nb), validation_data=OGen(vs, None, "v"),
                               validation_param_data=OParGen(sp) if with_param else None,
                               validation_obs_data=OObsGen(so) if with_obs else None,
                               call_every=2, early_stopping=es, patience=pat, best_val_loss=best, counter=cnt)
            new, stop, val, improved = v(Params(nn_params=theta, eq_params={"a": a}))
            return (new.validation_data.state, new.validation_param_data.state if with_param else 0.0,
                    new.validation_obs_data.state if with_obs else 0.0, new.counter, new.best_val_loss, stop, val, improved)
        def spec(theta, a, vs, sp, so, w, best, cnt, pat, es, wrong=False):
            largs = pts(theta) + [a[()]] + pts(w) + c07.call("Bv", pts(vs), B)
            if with_param:
                largs += c07.call("Bp", pts(sp), B)
            if with_obs:
                largs += c07.call("Bo", pts(so), 2 * B)
            val = P.app(f"L{nb}", 0, (), largs)
            improved = P.b_lt(val, best[()]) if not wrong else P.ONE - P.b_lt(best[()], val)     # strict vs non-strict
            cnt1 = improved * P.ZERO + (P.ONE - improved) * (cnt[()] + 1)
            best1 = improved * val + (P.ONE - improved) * best[()]
            stop = P.b_and(P.b_eq(cnt[()], pat[()]), es[()])
            adv = lambda nm, st: arr(lambda j: c07.call(nm, pts(st), KS)[j[0]], (KS,))
            return (adv("Gv", vs), adv("Gp", sp) if with_param else 0.0, adv("Go", so) if with_obs else 0.0,
                    arr(lambda _: cnt1, ()), arr(lambda _: best1, ()), arr(lambda _: stop, ()), arr(lambda _: val, ()),
                    arr(lambda _: improved, ()))
        # a NaN validation loss (finite parameters) is not a strict new minimum: probed natively with a NaN weight
        return dict(fn=fn, spec=spec, canary=lambda *z: spec(*z, wrong=True), probe_nonfinite=["w"],
                    inputs=[Inp("theta", (c07.P_,)), Inp("a", ()), Inp("vs", (KS,)), Inp("sp", (KS,)), Inp("so", (KS,)), Inp("w", (1,)),
                            Inp("best", ()), Inp("cnt", ()), Inp("pat", ()), Inp("es", (), "bool")])
    return EqObligation(f"C19/ValidationLoss.__call__/ensures[param_gen={int(with_param)},obs_gen={int(with_obs)}]", build,
                        [VM + "ValidationLoss.__call__"])


def lemma(seed):
    """counter invariant and stop lemma over the ValidationLoss contract (z3, integers)"""
    cnt, cnt1, kk, kk1, pat = z3.Ints("cnt cnt1 k k1 patience")
    imp, es, stop = z3.Bools("improved es stop")
    # contract of one invocation (C19/ValidationLoss.__call__): counter' = ite(improved, 0, counter+1); stop <=> es /\ counter == patience
    contract = z3.And(cnt1 == z3.If(imp, 0, cnt + 1), stop == z3.And(es, cnt == pat))
    # ghost k = number of consecutive non-improving invocations immediately preceding the current one
    ghost = kk1 == z3.If(imp, 0, kk + 1)
    goals = {
        "counter_equals_ghost_initially": z3.Implies(z3.And(cnt == 0, kk == 0), cnt == kk),
        "counter_equals_ghost_preserved": z3.Implies(z3.And(cnt == kk, contract, ghost), cnt1 == kk1),
        "stop_iff_enabled_and_preceded_by_patience_non_improving": z3.Implies(z3.And(cnt == kk, contract), stop == z3.And(es, kk == pat)),
        "never_when_disabled": z3.Implies(z3.And(contract, z3.Not(es)), z3.Not(stop)),
        "ghost_grows_by_one_so_first_hit_is_exact": z3.Implies(z3.And(ghost, kk >= 0, kk < pat), z3.And(kk1 <= pat, kk1 >= 0)),
    }
    t0 = time.time()
    for name, g in goals.items():
        s = z3.Solver()
        s.set("timeout", 10000)
        s.add(z3.Not(g))
        r = s.check()
        if r != z3.unsat:
            return dict(status="violated" if r == z3.sat else "undecided", failure="lemma", backend="z3",
                        detail=f"lemma {name}: {r} {s.model() if r == z3.sat else ''}",
                        replay={"native_disagrees": False, "solver_output": str(s.model()) if r == z3.sat else str(r)})
    s = z3.Solver()     # vacuity: a contract that stops on counter' (after the update) breaks the exactness
    s.add(z3.Not(z3.Implies(z3.And(cnt == kk, cnt1 == z3.If(imp, 0, cnt + 1), stop == z3.And(es, cnt1 == pat)), stop == z3.And(es, kk == pat))))
    if s.check() != z3.sat:
        return dict(status="error", detail="vacuity guard: stop lemma holds for a wrong contract")
    return dict(status="discharged", backend="z3", canary="refuted", solver_s=time.time() - t0, sample="; ".join(goals))


def obligations(tier):
    obs = []
    cfgs = c07.configs(tier)
    n_iters = (3,) if tier == "quick" else (3, 5)
    for n_iter in n_iters:
        for k in (1, 2, 3):
            for i in range(n_iter):
                obs.append(val_step(cfgs[0], n_iter, i, k))
        if tier == "thorough":
            for i in range(n_iter):
                obs.append(val_step(cfgs[2], n_iter, i, 2))
    obs.append(val_step(cfgs[1], 3, 2, 2))
    # progress printing is an effect only: with verbose=True and a printing period (2) that is not the validation period
    # (3) the module is still invoked exactly at the iterations divisible by its own period
    for i in (1, 2, 3, 4):
        obs.append(val_step(dict(cfgs[0], verbose=True), 5, i, 3))
    # a module whose successor has another period (warm-up schedules): the carried module's period decides
    obs.append(val_step(cfgs[0], 5, 3, 2, k_carry=3))
    obs.append(val_step(cfgs[0], 5, 4, 2, k_carry=3))
    obs.append(val_step(cfgs[0], 5, 2, 3, k_carry=2))
    # with tracked parameters: the history rows are the iteration's own parameters, whatever validation retains
    for i in range(3):
        obs.append(val_step(cfgs[3], 3, i, 2))
    # with a refining generator: refinement sees the current parameters, not the ones validation retains
    for i in range(3):
        obs.append(val_step(c07.rar_config(), 3, i, 2))
    for wp in (False, True):
        for wo in (False, True):
            obs.append(validation_loss_ob(wp, wo))
    obs.append(validation_loss_default_state_ob())
    # guard: early stopping flag stops the loop (C07 obligation, needed by the lemma)
    for i in range(4):
        g = c07.guard(cfgs[0], 3, i)
        g.name = g.name.replace("C07/", "C19/")
        obs.append(g)
    obs.append(FnObligation("C19/lemma/counter_invariant_and_stop", lemma, [VM + "ValidationLoss.__call__"]))
    return obs
