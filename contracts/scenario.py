"""
A fully configured single-network loss (all terms on) around uninterpreted network / residual / functions,
with the specification of every term as a polynomial.  Used by C06, C12, C20.
The network reads the equation parameter 'a' through its input transform, the residual reads 'a' and 'b'.
"""
from contracts.common import *
from contracts.lossutil import mean, _eq_flat
from typing import Any
from jinns.loss._DynamicLossAbstract import ODE, PDEStatio, PDENonStatio
from jinns.loss import (LossODE, LossPDEStatio, LossPDENonStatio, LossWeightsODE, LossWeightsPDEStatio,
                        LossWeightsPDENonStatio)
from jinns.parameters import DerivativeKeysODE, DerivativeKeysPDEStatio, DerivativeKeysPDENonStatio
from jinns.data._Batchs import ODEBatch, PDEStatioBatch, PDENonStatioBatch

TERMS = {"ODE": ["dyn_loss", "initial_condition", "observations"],
         "statio": ["dyn_loss", "norm_loss", "boundary_loss", "observations"],
         "nonstatio": ["dyn_loss", "norm_loss", "boundary_loss", "observations", "initial_condition"]}
ALLKEYS = {"ODE": ["dyn_loss", "initial_condition", "observations"],
           "statio": ["dyn_loss", "norm_loss", "boundary_loss", "observations", "initial_condition"],
           "nonstatio": ["dyn_loss", "norm_loss", "boundary_loss", "observations", "initial_condition"]}


def read_a(inp, params):
    return jnp.concatenate([inp, jnp.reshape(jnp.sum(params.eq_params["a"]), (1,))])


def read_b(v):
    """how the equation reads parameter 'b': a scalar (or length-one) parameter as it is; a 2 x 2 matrix through two of
    its entries (shape-sensitive: a flattened or transposed matrix is not the same parameter)"""
    if jnp.ndim(v) == 2:
        return v[1, 0] + 2.0 * v[0, 1]
    return jnp.sum(v)


class _Eq:
    R: Any
    def _res(self, pt, u_of_pt, params):
        val = u_of_pt(pt)
        jac = jax.jacfwd(u_of_pt)(pt)
        eq = [jnp.reshape(jnp.sum(params.eq_params["a"]), (1,)), jnp.reshape(read_b(params.eq_params["b"]), (1,))]
        return self.R(jnp.concatenate([pt, val, jac.reshape(-1)] + eq))


class ScODE(ODE, _Eq):
    R: Any = eqx.field(static=True, kw_only=True)
    def equation(self, t, u, params):
        return self._res(jnp.reshape(t, (1,)), lambda tt: u(tt, params), params)


class ScStatio(PDEStatio, _Eq):
    R: Any = eqx.field(static=True, kw_only=True)
    def equation(self, x, u, params):
        return self._res(x, lambda xx: u(xx, params), params)


class ScNonStatio(PDENonStatio, _Eq):
    R: Any = eqx.field(static=True, kw_only=True)
    def equation(self, t, x, u, params):
        return self._res(jnp.concatenate([t, x]), lambda tx: u(tx[0:1], tx[1:], params), params)


class Scen:
    def __init__(self, kind, B=2, k=1, tag="", hetero=None, a_shape=(), eq_order=("a", "b"), m=1, b_shape=()):
        """m: number of network outputs (term_specs is written for m == 1; m > 1 is for mode-equivalence obligations)"""
        self.kind, self.B, self.k, self.m = kind, B, k, m
        self.a_shape = tuple(a_shape)
        self.b_shape = tuple(b_shape)           # () or (2, 2): see read_b
        self.eq_order = tuple(eq_order)         # the order in which the caller wrote the eq_params dictionary
        self.d = 1
        self.dp = {"ODE": 1, "statio": 1, "nonstatio": 2}[kind]        # point dimension
        eqt = {"ODE": "ODE", "statio": "statio_PDE", "nonstatio": "nonstatio_PDE"}[kind]
        self.net = Net("N" + tag, eqt, self.dp + 1, m, input_transform=read_a)
        self.Rn = "R" + tag
        R = Opaque(self.Rn, self.dp + m + m * self.dp + 2, k)
        cls = {"ODE": ScODE, "statio": ScStatio, "nonstatio": ScNonStatio}[kind]
        self.dyn = cls(R=R, eq_params_heterogeneity=hetero) if hetero is not None else cls(R=R)
        self.fb = OpaqueFn("fb" + tag, [(self.dp,)], (m,))
        self.fic = OpaqueFn("fic" + tag, [(1,)], (m,))
        self.S = 2

    # ---- inputs
    def inputs(self, mask_shape=None, extra=()):
        B, dp = self.B, self.dp
        inp = [Inp("th", (1,)), Inp("a", self.a_shape), Inp("b", self.b_shape),
               Inp("pts", (B,) if self.kind == "ODE" else (B, dp)),
               Inp("wd", ()), Inp("wi", ()), Inp("wo", ()), Inp("wn", ()), Inp("wb", ()),
               Inp("t0", ()), Inp("u0", (self.m,)), Inp("oin", (B, dp)), Inp("oval", (B, self.m)),
               Inp("ns", (self.S, 1)), Inp("L", (), "pos"), Inp("bb", (1, dp, 2))]
        if mask_shape is not None:
            inp.append(Inp("mk", mask_shape, "bool"))
        return inp + list(extra)

    def names(self, *a, **k):
        return [i.name for i in self.inputs(*a, **k)]

    # ---- real objects
    def dkeys(self, mk, eq_order=("a", "b")):
        """mk: bool array (nterms, 3) -> DerivativeKeys*; columns: nn_params, a, b.
        eq_order: the order in which the mask dictionaries are written (a flag belongs to the key it is written under)"""
        terms = TERMS[self.kind]
        col = {"a": 1, "b": 2}
        kw = {t: Params(nn_params=mk[i, 0], eq_params={k: mk[i, col[k]] for k in eq_order}) for i, t in enumerate(terms)}
        cls = {"ODE": DerivativeKeysODE, "statio": DerivativeKeysPDEStatio, "nonstatio": DerivativeKeysPDENonStatio}[self.kind]
        return cls(**kw)

    def params(self, a):
        return self.net.params(a["th"], {k: a[k] for k in self.eq_order})

    def loss_batch(self, a, derivative_keys=None, param_batch=None, obs_eq=None, on=None):
        kind = self.kind
        on = set(TERMS[kind]) if on is None else set(on)
        params = self.params(a)
        dk = dict(derivative_keys=derivative_keys) if derivative_keys is not None else dict(params=params)
        dyn = self.dyn if "dyn_loss" in on else None
        # the batch dictionaries are handed over exactly as written (insertion order kept: no pytree round trip)
        obd = {"pinn_in": a["oin"], "val": a["oval"], "eq_params": obs_eq or {}} if "observations" in on else None
        if kind == "ODE":
            loss = mk_loss(LossODE, u=self.net.u, dynamic_loss=dyn,
                           loss_weights=LossWeightsODE(dyn_loss=a["wd"], initial_condition=a["wi"], observations=a["wo"]),
                           initial_condition=(a["t0"], a["u0"]) if "initial_condition" in on else None, **dk)
            batch = ODEBatch(temporal_batch=a["pts"], param_batch_dict=param_batch, obs_batch_dict=obd)
        else:
            fb, fic = self.fb, self.fic
            common = dict(u=self.net.u, dynamic_loss=dyn, **dk)
            if "norm_loss" in on:
                common.update(norm_samples=a["ns"], norm_int_length=a["L"])
            if "boundary_loss" in on:
                common.update(omega_boundary_condition="dirichlet",
                              omega_boundary_fun=(lambda x: fb(x)) if kind == "statio" else (lambda t, x: fb(jnp.concatenate([t, x]))))
            if kind == "statio":
                loss = mk_loss(LossPDEStatio, loss_weights=LossWeightsPDEStatio(dyn_loss=a["wd"], norm_loss=a["wn"],
                                                                       boundary_loss=a["wb"], observations=a["wo"]), **common)
                batch = PDEStatioBatch(inside_batch=a["pts"], border_batch=a["bb"] if "boundary_loss" in on else None,
                                       param_batch_dict=param_batch, obs_batch_dict=obd)
            else:
                if "initial_condition" in on:
                    common.update(initial_condition_fun=lambda x: fic(x))
                loss = mk_loss(LossPDENonStatio, loss_weights=LossWeightsPDENonStatio(
                    dyn_loss=a["wd"], norm_loss=a["wn"], boundary_loss=a["wb"], observations=a["wo"],
                    initial_condition=a["wi"]), **common)
                batch = PDENonStatioBatch(times_x_inside_batch=a["pts"],
                                          times_x_border_batch=a["bb"] if "boundary_loss" in on else None,
                                          param_batch_dict=param_batch, obs_batch_dict=obd)

        return loss, params, batch

    # ---- specification of each term
    def term_specs(self, s, a_rows=None, b_rows=None, a_obs=None, hetero_spec=None, on=None):
        """s: dict name -> symbolic arrays.  a_rows / b_rows: per-sample values of 'a' / 'b' (param batch), a_obs:
        per-observation values of 'a'.  hetero_spec(key, pt, nval, a, b) -> poly replaces the value seen by R."""
        kind, B, dp = self.kind, self.B, self.dp
        on = set(TERMS[kind]) if on is None else set(on)
        n = self.net.jet(s["th"])
        A = lambda i: (a_rows[i] if a_rows is not None else s["a"][()])
        Bv = lambda i: (b_rows[i] if b_rows is not None else (s["b"][()] if self.b_shape == () else s["b"][1, 0] + 2 * s["b"][0, 1]))
        out = {t: P.ZERO for t in ALLKEYS[kind]}
        def point(i):
            return [s["pts"][i]] if kind == "ODE" else [s["pts"][i, l] for l in range(dp)]
        if "dyn_loss" in on:
            per = []
            for i in range(B):
                pt = point(i)
                full0 = pt + [A(i)]                 # what the heterogeneity functions see (caller's parameters)
                ra, rb = A(i), Bv(i)
                if hetero_spec is not None:
                    ha = hetero_spec("a", pt, full0, A(i), Bv(i), n)
                    hb = hetero_spec("b", pt, full0, A(i), Bv(i), n)
                    ra = ha if ha is not None else ra
                    rb = hb if hb is not None else rb
                full = pt + [ra]                    # inside the equation the network is called with the replaced dict
                args = pt + [n(0, full)] + [n(0, full, (l,)) for l in range(dp)] + [ra, rb]
                per.append(sum((s["wd"][()] * P.app(self.Rn, cc, (), args) ** 2 for cc in range(self.k)), P.ZERO))
            out["dyn_loss"] = mean(per)
        if "initial_condition" in on:
            if kind == "ODE":
                rows = range(B) if (a_rows is not None or b_rows is not None) else [0]
                out["initial_condition"] = mean([s["wi"][()] * (n(0, [s["t0"][()], A(i)]) - s["u0"][0]) ** 2 for i in rows])
            elif kind == "nonstatio":
                out["initial_condition"] = mean([s["wi"][()] * (P.app(self.fic.name, 0, (), [s["pts"][i, 1]])
                                                               - n(0, [c(0), s["pts"][i, 1], A(i)])) ** 2 for i in range(B)])
        if "norm_loss" in on:
            if kind == "statio":
                if a_rows is not None:
                    raise NotImplementedError
                out["norm_loss"] = s["wn"][()] * (s["L"][()] * mean([n(0, [s["ns"][q, 0], A(0)]) for q in range(self.S)]) - 1) ** 2
            else:
                if a_rows is not None:
                    raise NotImplementedError
                out["norm_loss"] = s["wn"][()] * mean([
                    (s["L"][()] * mean([n(0, [s["pts"][i, 0], s["ns"][q, 0], A(0)]) for q in range(self.S)]) - 1) ** 2
                    for i in range(B)])
        if "boundary_loss" in on:
            tot = P.ZERO
            for f in range(2):
                pt = [s["bb"][0, l, f] for l in range(dp)]
                if a_rows is not None:
                    raise NotImplementedError
                tot = tot + s["wb"][()] * (n(0, pt + [A(0)]) - P.app(self.fb.name, 0, (), pt)) ** 2
            out["boundary_loss"] = tot
        if "observations" in on:
            per = []
            for i in range(B):
                av = a_obs[i] if a_obs is not None else A(i)
                pt = [s["oin"][i, l] for l in range(dp)] + [av]
                per.append(s["wo"][()] * (n(0, pt) - s["oval"][i, 0]) ** 2)
            out["observations"] = mean(per)
        return out
