"""
C09 — mini-batching only permutes the store and serves each point once per epoch (Engine A, unbounded sizes).
Under contract: _reset_or_increment, _reset_batch_idx_and_permute, _increment_batch_idx and the consumers
DataGeneratorODE.temporal_batch, CubicMeshPDENonStatio.temporal_batch, CubicMeshPDEStatio.inside_batch / border_batch,
DataGeneratorObservations.obs_batch, DataGeneratorParameter.param_batch.   n, b, idx, n_eff (and the RAR counters) are
z3 integers: no bound on any size or on the length of the get_batch history (invariant + iteration rule).

Invariant after any call:  0 <= idx /\ idx mod b = 0 /\ idx < n_eff, with served = [0, min(idx + b, n_eff));
before the first call idx = INT32_MAX - b - 1.   Precondition 1 <= b <= n_eff <= n < 2^30.
Step postconditions (from the property): (1) store' is store or store o pi (pi the permutation returned by the assumed
contract of jax.random.choice); (2) reshuffle <=> every point of [0, n_eff) has been served (or first call);
(3) b | n_eff => the new window is disjoint from `served` and inside [0, n_eff); (4) batch == store'[c : c + b],
c = clamp(idx', 0, n - b); (5) idx + b fits in int32.
"""
import time
import z3
from contracts.common import FnObligation
from vf import pyvc
from vf.pyvc import Executor, Rec, SArr, Key, INT32_MAX, prove, perm_axioms, zint

from vf.paths import R
SRC = R("/repo/jinns/data/_DataGenerators.py")
META = dict(
    trusted_base=[
        "Engine A: Python subset semantics of vf/pyvc.py (mathematical integers with separate int32 obligations, reals for floats, "
        "left-to-right evaluation, eqx.Modules immutable, jit decorators are no-ops) and its ~25 jnp / lax models "
        "(dynamic_slice clamps the start index as XLA does)",
        "assumed contract of jax.random.choice(key, a, shape=(len(a),), replace=False, p): returns a o pi, pi a bijection of "
        "[0, len(a)); rows with p == 0 come after rows with p > 0",
        "assumed contract of jax.random.split: fresh keys",
        "iteration rule: the invariant holds after any number of get_batch calls (Hoare rule, not re-proved)",
        "z3 (non-linear integer arithmetic with symbolic divisor)"],
    bounded_in={"spatial dimension of the stores": "1..2 (array rank is concrete)", "parameter-loader keys": "2"},
    unbounded_in=["number of points n", "batch size b", "current index", "effective size n_eff (RAR: n_start + J * selected)",
                  "store contents", "length of the get_batch history"],
    assumptions=["n < 2^30 (keeps the first-call sentinel INT32_MAX - b - 1 apart from real indices and idx + b inside int32)"],
)
DG = "jinns.data._DataGenerators:"

n, b, idx, J, nstart, sel = z3.Ints("n b idx J n_start selected")
i_, j_ = z3.Ints("i j")
SENT = INT32_MAX - b - 1


def store(name, shape):
    f = z3.Function(name, *([z3.IntSort()] * len(shape) + [z3.RealSort()]))
    return SArr(shape, lambda *k: f(*[zint(x) for x in k]), "real"), f


def Inv(idx_, b_, neff):
    return z3.Or(idx_ == INT32_MAX - b_ - 1, z3.And(idx_ >= 0, idx_ < neff, idx_ % b_ == 0))


def scenario(which, rar):
    """returns (executor, call thunk -> (new record, batch), description of the store: (field, rows, trailing dims),
    n_eff term, index field, pre conditions)"""
    ex = Executor([SRC])
    neff = (nstart + J * sel) if rar else None
    pre = [b >= 1, n < 2 ** 30]
    rarp = None
    def start_without_rar(total):
        """the start count a generator built without RAR carries, whatever the user passed for it: the value the
        constructor's own normalisation (_check_and_set_rar_parameters, executed here) leaves in the field"""
        outs = ex.call_function("_check_and_set_rar_parameters", [None, total, z3.Int("n_start_given_by_user")])
        if len(outs) != 1 or outs[0].kind != "return":
            raise pyvc.Unsupported("_check_and_set_rar_parameters without RAR: expected one normal return")
        return outs[0].value[0]
    if rar:
        rarp = {"start_iter": z3.Int("start_iter"), "update_every": z3.Int("update_every"),
                # the store under examination uses `sel`; the other store's selected size is a different number
                "selected_sample_size_times": sel if "temporal" in which else z3.Int("selected_other"),
                "selected_sample_size_omega": sel if "temporal" not in which else z3.Int("selected_other"),
                "sample_size_times": z3.Int("S_t"), "sample_size_omega": z3.Int("S_x")}
        pre += [nstart >= 1, J >= 0, sel >= 1, neff <= n]
    if which.split("[")[0] in ("DataGeneratorODE.temporal_batch", "CubicMeshPDENonStatio.temporal_batch"):
        st, _ = store("times", (n,))
        p, _ = store("p_times", (n,))
        cls = which.split(".")[0]
        f = dict(key=Key(), nt=n, tmin=0.0, tmax=1.0, temporal_batch_size=b, method="uniform", rar_parameters=rarp,
                 nt_start=nstart if rar else start_without_rar(n), p_times=p if rar else None, rar_iter_from_last_sampling=None,
                 rar_iter_nb=J if rar else None, curr_time_idx=idx, times=st)
        if cls == "CubicMeshPDENonStatio":
            f.update(n=z3.Int("nx"), nb=None, omega_batch_size=z3.Int("bx"), omega_border_batch_size=None, dim=1,
                     min_pts=(0.0,), max_pts=(1.0,), n_start=nstart if rar else z3.Int("nx"), p_omega=None, p_border=None,
                     curr_omega_idx=z3.Int("ix"), curr_omega_border_idx=None, omega=store("omega", (z3.Int("nx"), 1))[0],
                     omega_border=None, cartesian_product=("paired" not in which))
        rec = Rec(cls, f)
        return ex, (lambda: ex.call_method(rec, "temporal_batch")), ("times", n, ()), (neff if rar else n), "curr_time_idx", pre, rec
    if which.startswith("CubicMeshPDEStatio.inside_batch"):
        dim = int(which[-2]) if which.endswith("]") else 2
        st, _ = store("omega", (n, dim))
        p, _ = store("p_omega", (n,))
        rec = Rec("CubicMeshPDEStatio", dict(
            key=Key(), n=n, nb=None, omega_batch_size=b, omega_border_batch_size=None, dim=dim, min_pts=(0.0,) * dim,
            max_pts=(1.0,) * dim, method="uniform", rar_parameters=rarp, n_start=nstart if rar else start_without_rar(n), p_omega=p if rar else None,
            p_border=None, rar_iter_from_last_sampling=None, rar_iter_nb=J if rar else None, curr_omega_idx=idx,
            curr_omega_border_idx=None, omega=st, omega_border=None))
        return ex, (lambda: ex.call_method(rec, "inside_batch")), ("omega", n, (dim,)), (neff if rar else n), "curr_omega_idx", pre, rec
    if which == "CubicMeshPDEStatio.border_batch":
        dim = 2
        st, _ = store("omega_border", (n, dim, 2 * dim))         # n = rows per facet
        rec = Rec("CubicMeshPDEStatio", dict(
            key=Key(), n=z3.Int("nx"), nb=2 * dim * n, omega_batch_size=z3.Int("bx"), omega_border_batch_size=b, dim=dim,
            min_pts=(0.0,) * dim, max_pts=(1.0,) * dim, method="uniform", rar_parameters=None, n_start=z3.Int("nx"), p_omega=None,
            p_border=None, rar_iter_from_last_sampling=None, rar_iter_nb=None, curr_omega_idx=z3.Int("ix"),
            curr_omega_border_idx=idx, omega=store("omega", (z3.Int("nx"), dim))[0], omega_border=st))
        return ex, (lambda: ex.call_method(rec, "border_batch")), ("omega_border", n, (dim, 2 * dim)), n, "curr_omega_border_idx", pre, rec
    if which == "DataGeneratorObservations.obs_batch":
        ind = z3.Function("indices", z3.IntSort(), z3.IntSort())
        st = SArr((n,), lambda k: ind(zint(k)), "int")
        rec = Rec("DataGeneratorObservations", dict(
            key=Key(), obs_batch_size=b, observed_pinn_in=store("pin", (n, 1))[0], observed_values=store("val", (n, 1))[0],
            observed_eq_params={"a": store("oa", (n, 1))[0]}, sharding_device=None, n=n, curr_idx=idx, indices=st))
        v = z3.Int("anyrow")
        ex.extra_axioms = [z3.ForAll([v], z3.And(ind(v) >= 0, ind(v) < n))]      # C15 invariant: every index lies in [0, n)
        return ex, (lambda: ex.call_method(rec, "obs_batch")), ("indices", n, ()), n, "curr_idx", pre, rec
    if which.startswith("DataGeneratorParameter.param_batch"):
        k = which[-2]        # the key whose store is examined; the other key has its own index
        other = "b" if k == "a" else "a"
        sts = {k: store("pn_" + k, (n, 1))[0], other: store("pn_" + other, (n, 1))[0]}
        rec = Rec("DataGeneratorParameter", dict(
            keys={k: Key(), other: Key()}, n=n, param_batch_size=b, param_ranges={}, method="uniform", user_data={},
            curr_param_idx={k: idx, other: z3.Int("idx_other")}, param_n_samples=sts))
        pre = pre + [Inv(z3.Int("idx_other"), b, n)]
        return ex, (lambda: ex.call_method(rec, "param_batch")), (("param_n_samples", k), n, (1,)), n, ("curr_param_idx", k), pre, rec
    raise KeyError(which)


def elem_of(arr, row, trailing):
    return arr.elem(row, *trailing)


def run_consumer(which, rar):
    """symbolic execution of one consumer; returns dict of named goals (z3) with their path conditions and axioms"""
    ex, thunk, (field, rows, trail), neff, idxf, pre, rec = scenario(which, rar)
    pre = pre + [b <= neff, neff <= rows if not rar else z3.BoolVal(True), Inv(idx, b, neff)]
    outs = thunk()
    if len(outs) != 1 or outs[0].kind != "return":
        raise pyvc.Unsupported(f"{which}: expected a single normal return, got {[o.kind for o in outs]}")
    new, batch = outs[0].value
    pc = list(outs[0].pc) + pre
    perms = getattr(ex, "perms", [])
    def fld(r, f):
        return r.fields[f[0]][f[1]] if isinstance(f, tuple) else r.fields[f]
    old = fld(rec, field)
    mine = [p for p in perms if p[3] is old]
    if len(mine) != 1:
        raise pyvc.Unsupported(f"{which}: expected exactly one permutation draw of the store, found {len(mine)}")
    pi = mine[0][0]
    tr = tuple(z3.Int(f"c{k}") for k in range(len(trail)))
    trc = [z3.And(t >= 0, t < d) for t, d in zip(tr, trail)]
    R = z3.Or(idx == SENT, idx + b >= neff)                     # reshuffle <=> all of [0, n_eff) served (or first call)
    idx1 = z3.If(R, 0, idx + b)
    new_store = fld(new, field)
    goals = {}
    goals["index_update"] = (zint(fld(new, idxf)) == idx1)
    goals["store_is_permuted_only"] = z3.Implies(
        z3.And(i_ >= 0, i_ < rows, *trc),
        elem_of(new_store, i_, tr) == z3.If(R, elem_of(old, pi(i_), tr), elem_of(old, i_, tr)))
    cstart = z3.If(idx1 > rows - b, rows - b, idx1)
    if which == "DataGeneratorObservations.obs_batch":
        # the batch is the table rows selected by the served window of the index vector (alignment itself is C15)
        bt = batch["pinn_in"]
        tr2 = (z3.IntVal(0),)
        goals["batch_is_window_of_store"] = z3.Implies(
            z3.And(j_ >= 0, j_ < b), bt.elem(j_, *tr2) == rec.fields["observed_pinn_in"].elem(new_store.elem(cstart + j_), *tr2))
    else:
        bt = batch[field[1]] if isinstance(field, tuple) else batch
        goals["batch_is_window_of_store"] = z3.Implies(z3.And(j_ >= 0, j_ < b, *trc),
                                                       elem_of(bt, j_, tr) == elem_of(new_store, cstart + j_, tr))
    bt0 = batch["pinn_in"] if (isinstance(batch, dict) and "pinn_in" in batch) else (batch[field[1]] if isinstance(field, tuple) else batch)
    goals["batch_shape"] = z3.And(zint(bt0.shape[0]) == b)
    # vacuity canary: the pre-repair epoch test (strict inequality) must be refuted by the same pipeline
    Rw = z3.Or(idx == SENT, idx + b > neff)
    goals["__canary__"] = (zint(fld(new, idxf)) == z3.If(Rw, 0, idx + b))
    goals["no_int32_overflow"] = z3.And(idx + b <= INT32_MAX, idx + b >= -INT32_MAX - 1)
    # with RAR the reshuffle must be drawn with the store's probability vector (so that inactive rows stay last, C17)
    pfield = {"times": "p_times", "omega": "p_omega"}.get(field if isinstance(field, str) else "", None)
    parg = mine[0][4]
    if rar and pfield:
        # not "the same object": any vector that is zero exactly where the store's probabilities are zero keeps the
        # inactive rows last (the assumed contract of choice only speaks about p == 0 / p > 0)
        pst = rec.fields[pfield]
        if parg is pst:
            goals["reshuffle_uses_store_probabilities"] = z3.BoolVal(True)
        elif isinstance(parg, SArr):
            goals["reshuffle_uses_store_probabilities"] = z3.Implies(
                z3.And(i_ >= 0, i_ < rows), z3.And((pyvc.zreal(parg.elem(i_)) == 0) == (pyvc.zreal(pst.elem(i_)) == 0), pyvc.zreal(parg.elem(i_)) >= 0))
        else:
            goals["reshuffle_uses_store_probabilities"] = z3.BoolVal(False)
    else:
        goals["reshuffle_uses_store_probabilities"] = z3.BoolVal(parg is None)
    axioms = list(getattr(ex, "extra_axioms", []))
    for pm in perms:
        v = z3.Int("anyrow2")
        axioms.append(z3.ForAll([v], z3.Implies(z3.And(v >= 0, v < zint(pm[2])), z3.And(pm[0](v) >= 0, pm[0](v) < zint(pm[2])))))
    return dict(ex=ex, pc=pc, goals=goals, extra=ex.obligations, neff=neff, rows=rows, R=R, idx1=idx1, axioms=axioms)


def consumer_ob(which, rar, clause):
    name = f"C09/{which}/ensures.{clause}[rar={int(rar)}]"
    def run(seed):
        t0 = time.time()
        r = run_consumer(which, rar)
        goal = r["goals"][clause]
        st, model = prove(goal, r["pc"], axioms=r["axioms"], timeout_ms=20000)
        out = verdict(name, st, model, time.time() - t0, which, r)
        if out["status"] == "discharged" and clause == "index_update":
            cst, _ = prove(r["goals"]["__canary__"], r["pc"], axioms=r["axioms"], timeout_ms=20000)
            out["canary"] = "refuted" if cst == "sat" else "verified"
            if cst == "unsat":
                return dict(status="error", detail="vacuity guard: the deliberately wrong postcondition verified")
        return out
    return FnObligation(name, run, [DG + which.split("[")[0], DG + "_reset_or_increment", DG + "_reset_batch_idx_and_permute",
                                    DG + "_increment_batch_idx"])


def side_ob(which, rar):
    """obligations generated while executing (positive divisors, choice over the whole store, reshape extents)"""
    name = f"C09/{which}/side_conditions[rar={int(rar)}]"
    def run(seed):
        t0 = time.time()
        r = run_consumer(which, rar)
        for nm, pc_, g in r["extra"]:
            st, model = prove(g, list(pc_) + r["pc"], axioms=r["axioms"], timeout_ms=10000)
            if st != "unsat":
                return verdict(name + ":" + nm, st, model, time.time() - t0, which, r)
        return dict(status="discharged", backend="pyvc+z3", solver_s=time.time() - t0,
                    sample=f"{len(r['extra'])} side conditions; {r['ex'].stmts_visited} statements executed")
    return FnObligation(name, run, [DG + which.split("[")[0]])


def verdict(name, st, model, dt, which, r):
    if st == "unsat":
        return dict(status="discharged", backend="pyvc+z3", solver_s=dt, sample=f"{r['ex'].stmts_visited} statements executed symbolically")
    if st == "unknown":
        return dict(status="undecided", backend="z3", solver_s=dt, detail="z3 returned unknown")
    vals = {str(d): str(model[d]) for d in model.decls() if d.arity() == 0}
    nat = native_replay(which, vals)
    return dict(status="violated", failure="value", backend="pyvc+z3", solver_s=dt,
                detail=f"{name} refuted; counter-model " + ", ".join(f"{k}={v}" for k, v in sorted(vals.items()) if k in ("n", "b", "idx", "J", "n_start", "selected")),
                replay=dict(native_disagrees=bool(nat), solver_model=vals, native=nat or "native monitor saw no violation for these sizes",
                            expected="permutation only / one pass per epoch", inputs={k: vals.get(k) for k in ("n", "b", "idx")}))


# ---- lemmas over the step contract (pure z3)
def _hints(neff, q):
    """arithmetic facts used to keep the divisibility lemmas linear for the solver; each is itself discharged below"""
    k = q - idx / b
    return {
        "hint.positive_multiple_is_at_least_b": z3.Implies(z3.And(b >= 1, k * b > 0), k * b >= b),
        "hint.distribution": q * b - (idx / b) * b == k * b,
        "hint.div_mod_definition": idx == b * (idx / b) + idx % b,
    }


def lemma_ob(clause):
    name = f"C09/lemma/{clause}"
    def run(seed):
        t0 = time.time()
        neff, q, kk = z3.Int("n_eff"), z3.Int("q"), z3.Int("kk")
        pre = [b >= 1, b <= neff, neff <= n, n < 2 ** 30, Inv(idx, b, neff)]
        R = z3.Or(idx == SENT, idx + b >= neff)
        idx1 = z3.If(R, 0, idx + b)
        hints = _hints(neff, q)
        goals = {
            "invariant_established_by_constructor": (pre[:4], Inv(SENT, b, neff)),
            "invariant_preserved": (pre, Inv(idx1, b, neff)),
            # served before the call: [0, min(idx+b, n_eff)); the new window is [idx1, idx1+b)
            "no_point_twice_when_b_divides_n": (pre + [neff == q * b] + list(hints.values()),
                                                z3.Implies(z3.Not(R), z3.And(idx1 >= idx + b, idx1 + b <= neff))),
            "window_inside_active_region_when_b_divides_n": (pre + [neff == q * b] + list(hints.values()),
                                                             z3.And(idx1 >= 0, idx1 + b <= neff)),
            "every_point_served_before_reshuffle": (pre, z3.Implies(z3.And(R, idx != SENT), idx + b >= neff)),
            "reshuffle_as_soon_as_all_served": (pre, z3.Implies(z3.And(idx != SENT, idx + b >= neff), R)),
            "sentinel_never_a_real_index": (pre[:4], z3.Implies(z3.And(idx >= 0, idx < neff), idx != SENT)),
            # the hints, for all integers (kk stands for the quotient difference)
            "hint.positive_multiple_is_at_least_b": ([], z3.Implies(z3.And(b >= 1, kk * b > 0), kk * b >= b)),
            "hint.distribution": ([], hints["hint.distribution"]),
            "hint.div_mod_definition": ([b >= 1], hints["hint.div_mod_definition"]),
        }
        hyp, goal = goals[clause]
        st, model = prove(goal, hyp, timeout_ms=30000)
        if st == "unsat":
            out = dict(status="discharged", backend="z3", solver_s=time.time() - t0, sample=str(goal)[:200])
            if clause == "no_point_twice_when_b_divides_n":       # vacuity: without b | n_eff the clause must be refutable
                cst, _ = prove(z3.Implies(z3.Not(R), idx1 + b <= neff), pre, timeout_ms=20000)
                out["canary"] = "refuted" if cst == "sat" else "not-refuted"
                if cst == "unsat":
                    return dict(status="error", detail="vacuity guard: no-repeat clause holds without the divisibility hypothesis")
            return out
        if st == "unknown":
            return dict(status="undecided", backend="z3", detail="z3 unknown")
        return dict(status="violated", failure="lemma", backend="z3", detail=f"{name}: {model}",
                    replay=dict(native_disagrees=False, solver_output=str(model)))
    return FnObligation(name, run, [DG + "_reset_or_increment"])


# ---- native monitor used to replay counter-models
def native_replay(which, vals):
    try:
        nn, bb = int(vals.get("n", 8)), int(vals.get("b", 4))
    except Exception:
        return None
    if bb > nn or bb < 1:
        nn, bb = 4, 2
    cands = [(nn, bb)] if nn <= 64 else []
    cands += [(4, 2), (8, 4), (6, 3), (1, 1), (5, 2), (7, 3)]
    try:
        ns_user = int(vals["n_start_given_by_user"]) if "n_start_given_by_user" in vals else None
    except Exception:
        ns_user = None
    for (nn, bb) in cands:
        for ns in ([None] if ns_user is None else [None, min(max(ns_user, 1), nn), max(1, nn // 2)]) + (["rar_pool_exhausted"] if "inside_batch" in which else []):
            m = _native_monitor(which, nn, bb, ns)
            if m:
                return m
    return None


def _native_monitor(which, nn, bb, ns_user=None):
    import jax
    import jax.numpy as jnp
    import numpy as np
    from jinns.data._DataGenerators import DataGeneratorODE, CubicMeshPDEStatio, DataGeneratorObservations
    key = jax.random.PRNGKey(0)
    msgs = []
    if "NonStatio.temporal_batch" in which:
        from jinns.data._DataGenerators import CubicMeshPDENonStatio
        # interior batch size deliberately different from the temporal one
        g = CubicMeshPDENonStatio(key=key, n=12, nb=None, nt=nn, omega_batch_size=(4 if bb != 4 else 3), omega_border_batch_size=None,
                                  temporal_batch_size=bb, dim=1, min_pts=(0.0,), max_pts=(1.0,), tmin=0.0, tmax=1.0)
        get = lambda g: g.temporal_batch()
        st = lambda g: np.asarray(g.times)
        ix = lambda g: int(g.curr_time_idx)
    elif "temporal_batch" in which:
        g = DataGeneratorODE(key, nn, 0.0, 1.0, bb, nt_start=ns_user)
        get = lambda g: g.temporal_batch()
        st = lambda g: np.asarray(g.times)
        ix = lambda g: int(g.curr_time_idx)
    elif "inside_batch" in which:
        dim_ = 2 if "dim=2" in which else 1
        if ns_user == "rar_pool_exhausted":
            # a refining generator whose pre-allocated pool is entirely in use (n_start == n): an epoch is a pass over all n
            g = CubicMeshPDEStatio(key=key, n=nn, nb=None, omega_batch_size=bb, omega_border_batch_size=None, dim=dim_, min_pts=(0.0,) * dim_,
                                   max_pts=(1.0,) * dim_, n_start=nn,
                                   rar_parameters={"start_iter": 0, "update_every": 1, "sample_size_omega": 4, "selected_sample_size_omega": 2})
            ns_user = None
        else:
            g = CubicMeshPDEStatio(key=key, n=nn, nb=None, omega_batch_size=bb, omega_border_batch_size=None, dim=dim_, min_pts=(0.0,) * dim_, max_pts=(1.0,) * dim_,
                                   n_start=ns_user)
        get = lambda g: g.inside_batch()
        st = lambda g: np.asarray(g.omega)[:, -1]
        full = lambda g: np.asarray(g.omega)
        ix = lambda g: int(g.curr_omega_idx)
    elif "border_batch" in which:
        g = CubicMeshPDEStatio(key=key, n=4, nb=4 * nn, omega_batch_size=2, omega_border_batch_size=bb, dim=2, min_pts=(0.0, 0.0), max_pts=(1.0, 1.0))
        get = lambda g: g.border_batch()
        st = lambda g: np.asarray(g.omega_border)[:, 1, 0]
        full = lambda g: np.asarray(g.omega_border).reshape(np.asarray(g.omega_border).shape[0], -1)
        ix = lambda g: int(g.curr_omega_border_idx)
    elif "param_batch" in which:
        from jinns.data._DataGenerators import DataGeneratorParameter
        k1, k2 = jax.random.split(key)
        # keys given as a dict whose insertion order is not alphabetical; the two stores live in disjoint ranges
        g = DataGeneratorParameter({"nu": k1, "D": k2}, nn, bb, {"nu": (0.0, 1.0), "D": (10.0, 11.0)}, "uniform", {})
        for call in range(2 * (nn // bb + 2)):
            g2, batch = g.param_batch()
            for kname, (lo_, hi_) in (("nu", (0.0, 1.0)), ("D", (10.0, 11.0))):
                st_ = np.asarray(g2.param_n_samples[kname]).reshape(-1)
                bt_ = np.asarray(batch[kname]).reshape(-1)
                if np.isnan(bt_).any() or np.isnan(st_).any() or st_.min() < lo_ or st_.max() > hi_ or bt_.min() < lo_ or bt_.max() > hi_:
                    return [f"call {call}: n={nn}, b={bb}: the store / batch of parameter '{kname}' holds values outside its own samples "
                            f"(range [{lo_}, {hi_}]): store {st_.tolist()[:4]}..., batch {bt_.tolist()}"]
                if not np.allclose(np.sort(st_), np.sort(np.asarray(g.param_n_samples[kname]).reshape(-1))):
                    return [f"call {call}: the store of parameter '{kname}' is no longer a permutation of its samples"]
            g = g2
        return None
    else:
        g = DataGeneratorObservations(key, bb, jnp.arange(nn, dtype=float)[:, None], jnp.arange(nn, dtype=float)[:, None])
        get = lambda g: g.obs_batch()
        st = lambda g: np.asarray(g.indices).astype(float)
        ix = lambda g: int(g.curr_idx)
    base = np.sort(st(g))
    full = locals().get("full")
    rows0 = None if full is None else sorted(map(tuple, np.round(full(g), 9).tolist()))
    served, prev = [], None
    for call in range(3 * (nn // bb + 2)):
        g2, batch = get(g)
        cur = st(g2)
        if not np.allclose(np.sort(cur), base):
            msgs.append(f"call {call}: the store is no longer a permutation of the initial store")
            break
        if full is not None and sorted(map(tuple, np.round(full(g2), 9).tolist())) != rows0:
            msgs.append(f"call {call}: n={nn}, b={bb}: the stored rows are no longer the initial rows (coordinates of different "
                        f"points were mixed): e.g. row 0 is now {full(g2)[0].tolist()}")
            break
        resh = prev is None or ix(g2) == 0
        bvals = np.asarray(batch["pinn_in"] if isinstance(batch, dict) else batch).reshape(bb, -1)[:, -1 if "border" not in which else 0]
        if "border" in which:
            bvals = np.asarray(batch)[:, 1, 0]
        if not set(np.round(np.asarray(bvals, dtype=float), 9)) <= set(np.round(cur.astype(float), 9)) or np.isnan(np.asarray(bvals, dtype=float)).any():
            msgs.append(f"call {call}: n={nn}, b={bb}: the batch contains rows that are not rows of the store: {np.asarray(bvals).tolist()}")
            break
        if len(set(np.round(cur.astype(float), 9))) == len(cur) and len(set(np.round(np.asarray(bvals, dtype=float), 9))) < bb:
            msgs.append(f"call {call}: n={nn}, b={bb}: the batch serves a stored point more than once: {np.asarray(bvals).tolist()} "
                        f"(a batch is a window of {bb} distinct rows of the store)")
            break
        if resh and prev is not None:
            if len(set(np.round(served, 9))) < nn:
                msgs.append(f"call {call}: n={nn}, b={bb}" + (f", n_start={ns_user} passed without RAR" if ns_user else "") +
                            f": reshuffle before every point was served ({len(set(np.round(served, 9)))}/{nn})")
            served = []
        if not resh and nn % bb == 0 and set(np.round(bvals, 9)) & set(np.round(served, 9)):
            msgs.append(f"call {call}: n={nn}, b={bb}: a point is served twice between two reshuffles")
        if not resh and len(set(np.round(served, 9))) >= nn:
            msgs.append(f"call {call}: n={nn}, b={bb}: all points were served but no reshuffle happened")
        served += list(bvals)
        prev, g = cur, g2
        if msgs:
            break
    return msgs[:2] or None


CONSUMERS = [("DataGeneratorODE.temporal_batch", (False, True)), ("CubicMeshPDENonStatio.temporal_batch", (False, True)),
             ("CubicMeshPDENonStatio.temporal_batch[paired]", (False,)),
             ("CubicMeshPDEStatio.inside_batch[dim=1]", (False, True)), ("CubicMeshPDEStatio.inside_batch[dim=2]", (False,)),
             ("CubicMeshPDEStatio.border_batch", (False,)), ("DataGeneratorObservations.obs_batch", (False,)),
             ("DataGeneratorParameter.param_batch[a]", (False,)), ("DataGeneratorParameter.param_batch[b]", (False,))]
CLAUSES = ["index_update", "store_is_permuted_only", "batch_is_window_of_store", "batch_shape", "no_int32_overflow",
           "reshuffle_uses_store_probabilities"]
LEMMAS = ["invariant_established_by_constructor", "invariant_preserved", "no_point_twice_when_b_divides_n",
          "window_inside_active_region_when_b_divides_n", "every_point_served_before_reshuffle",
          "reshuffle_as_soon_as_all_served", "sentinel_never_a_real_index", "hint.positive_multiple_is_at_least_b",
          "hint.distribution", "hint.div_mod_definition"]


def models_ob():
    def run(seed):
        from contracts import models
        bad, cnt = models.run(seed)
        bad2, cnt2 = models.dependency_contracts(seed)
        bad += bad2
        if bad:
            return dict(status="error", bounded=True, detail="Engine A trusted base disagrees with real JAX: " + bad[0])
        return dict(status="discharged", backend="native(bounded)", bounded=True,
                    sample=f"{cnt} model instances and {cnt2} dependency-contract samples agree with real JAX")
    return FnObligation("C09/bounded/engineA_models_and_assumed_contracts_agree_with_jax", run, [])


def _ctor_sentinels():
    from contracts import c08
    return [c08.ctor_sentinels(cls, dim, prefix="C09") for cls in ("CubicMeshPDEStatio", "CubicMeshPDENonStatio") for dim in (1, 2)]


def obligations(tier):
    obs = [models_ob()]
    consumers = list(CONSUMERS)
    if tier == "thorough":
        consumers += [("CubicMeshPDEStatio.inside_batch[dim=2]", (True,)), ("CubicMeshPDEStatio.inside_batch[dim=3]", (False, True))]
    for which, rars in consumers:
        for rar in rars:
            for cl in CLAUSES:
                obs.append(consumer_ob(which, rar, cl))
            obs.append(side_ob(which, rar))
    for l in LEMMAS:
        obs.append(lemma_ob(l))
    # the step contracts assume Inv(idx, b, n_eff) with the sentinel of the index's own batch size: the constructors establish it
    obs += _ctor_sentinels()
    # ... and the initial store they build is the whole point set (for observation rows: the index vector 0..n-1, with or
    # without a storage sharding) — the C15 constructor contract, needed by "every point is served" and re-checked here
    from contracts import c15
    for o in (c15.obs_constructor(("n", 1), ("n", 1), sharding=True, eq_keys=("nu", "D")), c15.obs_constructor(("n", 2), ("n", 1))):
        o.name = o.name.replace("C15/", "C09/initial_store/")
        obs.append(o)
    # get_batch of the non-stationary generator composes the three consumers: every store keeps its own cursor (otherwise a
    # store is walked with another store's epoch) — the C14 contract of get_batch, whose frame clause is needed here
    from contracts import c14
    for (dim_, cart_) in ((2, False), (1, False), (2, True)):
        o = c14.get_batch_ob(dim_, cart_, True)
        o.name = o.name.replace("C14/", "C09/composition/")
        obs.append(o)
    # an observation "row" is the input, the value and the observed parameters: all three are served from the same window
    o = c15.obs_alignment(2, 1, ("a", "b"))
    o.name = o.name.replace("C15/", "C09/observation_rows/")
    obs.append(o)
    return obs
