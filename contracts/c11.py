"""
C11 — forward-mode (separable, grid) computations agree with the pointwise reverse-mode ones.
A real SPINN (built by create_SPINN) around uninterpreted per-dimension embeddings f_j; its pointwise twin is
F_m(x) = sum_r prod_j f_j(x_j)[m*R + r].  Entry (i_1..i_d) of every forward-mode result must equal the C01 / C02 /
C04 / C05 postcondition instantiated with F at the point (x[i_1,0], ..., x[i_d,d-1]), time axis first.
The pointwise postconditions are obtained by differentiating F symbolically (vf.poly.diff).
Under contract: _div_fwd, _laplacian_fwd, _vectorial_laplacian (SPINN branch), _u_dot_nabla_times_u_fwd, the SPINN
branches of Burgers, Fisher-KPP, OU-FPE, mass conservation, Navier-Stokes, of the four boundary functions, of
initial_condition_apply, normalization_loss_apply, dynamic_loss_apply, and _get_grid.
"""
from contracts.common import *
from contracts.c10 import _Factory
from contracts.lossutil import mean
import jinns.loss._operators as ops
from jinns.utils._spinn import create_SPINN
from jinns.loss import (BurgerEquation, FisherKPP, OU_FPENonStatioLoss2D, MassConservation2DStatio, NavierStokes2DStatio)
from jinns.loss._loss_utils import initial_condition_apply, normalization_loss_apply, dynamic_loss_apply
from jinns.loss._boundary_conditions import (boundary_dirichlet_statio, boundary_neumann_statio,
                                             boundary_dirichlet_nonstatio, boundary_neumann_nonstatio)
from jinns.data._Batchs import PDEStatioBatch, PDENonStatioBatch
from jinns.utils._utils import _get_grid

META = dict(
    trusted_base=TRUSTED_B + ["symbolic differentiation of the pointwise twin (vf.poly.diff)"],
    bounded_in={"separable dimensions (time included)": "1..3", "batch per axis B": "1..2", "rank r": "1..2", "outputs": "1..2"},
    unbounded_in=["embeddings f_j (uninterpreted)", "batch contents", "equation parameters", "network parameters"],
    assumptions=[],
)
OP = "jinns.loss._operators:"


class Sep:
    """real SPINN + its pointwise twin"""
    def __init__(self, prefix, time, dx, r, m):
        self.time, self.dx, self.r, self.m = time, dx, r, m
        self.d = dx + (1 if time else 0)
        self.fac = _Factory(prefix)
        self.prefix = prefix
        self.u = create_SPINN(jax.random.PRNGKey(0), self.d, r, ((self.fac, 1, r * m),),
                              "nonstatio_PDE" if time else "statio_PDE", m)

    def params(self, th, eq=None):
        return Params(nn_params=jax.tree_util.tree_map(lambda leaf: th, self.u.params), eq_params=eq or {})

    def F(self, mm, coords, th):
        """pointwise twin at the point `coords` (time first)"""
        tot = P.ZERO
        for z in range(self.r):
            term = P.ONE
            for j in range(self.d):
                term = term * P.app(f"{self.prefix}{j}", mm * self.r + z, (), [coords[j], th[0]])
            tot = tot + term
        return tot


def grid_points(t, x, time, B, dx):
    """iterate grid indices -> coordinate list (time first)"""
    d = dx + (1 if time else 0)
    for idx in np.ndindex(*((B,) * d)):
        if time:
            yield idx, [t[idx[0], 0]] + [x[idx[1 + j], j] for j in range(dx)]
        else:
            yield idx, [x[idx[j], j] for j in range(dx)]


def grid_arr(t, x, time, B, dx, f, tail=()):
    d = dx + (1 if time else 0)
    out = np.empty((B,) * d + tuple(tail), dtype=object)
    for idx, pt in grid_points(t, x, time, B, dx):
        v = f(pt)
        if tail:
            for k in np.ndindex(*tail):
                out[idx + k] = P.as_poly(v[k[0]] if len(k) == 1 else v[k])
        else:
            out[idx] = P.as_poly(v)
    return out


def D(p, v):
    return P.diff(p, v)


def operator_ob(which, time, dx, r, B, m_=None):
    """m_: number of components of the vector field for the vectorial Laplacian when it differs from the dimension"""
    m = m_ or {"lap": 1, "div": dx, "veclap": dx if dx > 1 else 2, "adv": 2}[which]
    def build():
        S = Sep("e", time, dx, r, m)
        f = {"lap": ops._laplacian_fwd, "div": ops._div_fwd, "veclap": ops._vectorial_laplacian,
             "adv": ops._u_dot_nabla_times_u_fwd}[which]
        kw = dict(u_vec_ndim=m) if which == "veclap" else {}
        def fn(th, t, x):
            return f(t if time else None, x, S.u, S.params(th), **kw)
        def spec(th, t, x, wrong=False):
            o = 1 if time else 0
            def lap(j, pt):
                return sum((D(D(S.F(j, pt, th), pt[o + i]), pt[o + i]) for i in range(dx)), P.ZERO)
            if which == "lap":
                g = lambda pt: lap(0, pt) if not wrong else lap(0, pt) + S.F(0, pt, th)
                return grid_arr(t, x, time, B, dx, g)
            if which == "div":
                g = lambda pt: sum((D(S.F(i if not wrong else 0, pt, th), pt[o + i]) for i in range(dx)), P.ZERO) + (c(1) if wrong and dx == 1 else 0)
                return grid_arr(t, x, time, B, dx, g)
            if which == "veclap":
                # the implementation returns component-major: (m, B, .., B)
                a = grid_arr(t, x, time, B, dx, lambda pt: [lap(j if not wrong else 0, pt) for j in range(m)], (m,))
                return np.moveaxis(a, -1, 0)
            if which == "adv":
                def g(pt):
                    U = [S.F(0, pt, th), S.F(1, pt, th)]
                    if wrong:
                        U = U[::-1]
                    return [U[0] * D(S.F(j, pt, th), pt[o]) + U[1] * D(S.F(j, pt, th), pt[o + 1]) for j in range(2)]
                return grid_arr(t, x, time, B, dx, g, (2,))
        return dict(fn=fn, spec=spec, canary=lambda *z: spec(*z, wrong=True),
                    inputs=[Inp("th", (1,)), Inp("t", (B, 1)), Inp("x", (B, dx))])
    nm = {"lap": "_laplacian_fwd", "div": "_div_fwd", "veclap": "_vectorial_laplacian", "adv": "_u_dot_nabla_times_u_fwd"}[which]
    return EqObligation(f"C11/{nm}/grid_entry_equals_pointwise[t={int(time)},dx={dx},r={r},B={B}{'' if m_ is None else ',components=' + str(m_)}]", build, [OP + nm])


def equation_ob(which, dx, r, B):
    time = which in ("burgers", "fisher", "ou")
    def build():
        if which == "ns":
            Su, Sp = Sep("v", False, 2, r, 2), Sep("p", False, 2, r, 1)
        else:
            S = Sep("e", time, dx, r, {"mass": 2}.get(which, 1))
        def fn(th, t, x, q, Tmax):
            if which == "burgers":
                return BurgerEquation(Tmax=Tmax).evaluate(t, x, S.u, S.params(th, {"nu": q[0]}))
            if which == "fisher":
                return FisherKPP(Tmax=Tmax).evaluate(t, x, S.u, S.params(th, {"D": q[0], "r": q[1], "g": q[2]}))
            if which == "ou":
                return OU_FPENonStatioLoss2D(Tmax=Tmax).evaluate(
                    t, x, S.u, S.params(th, {"alpha": q[0:2], "mu": q[2:4], "sigma": q[4:6]}))
            if which == "mass":
                pd = ParamsDict(nn_params={"u": S.params(th).nn_params}, eq_params={"k": q[0]})
                return MassConservation2DStatio(nn_key="u").evaluate(x, {"u": S.u}, pd)
            if which == "ns":
                pd = ParamsDict(nn_params={"u": Su.params(th).nn_params, "p": Sp.params(th).nn_params},
                                eq_params={"rho": q[0], "nu": q[1]})
                return NavierStokes2DStatio(u_key="u", p_key="p").evaluate(x, {"u": Su.u, "p": Sp.u}, pd)
        def spec(th, t, x, q, Tmax, wrong=False):
            T = Tmax[()]
            sg = -1 if wrong else 1
            def g(pt):
                if which == "burgers":
                    N = S.F(0, pt, th)
                    return [D(N, pt[0]) + T * (N * D(N, pt[1]) * sg - q[0] * D(D(N, pt[1]), pt[1]))]
                if which == "fisher":
                    N = S.F(0, pt, th)
                    lap = sum((D(D(N, pt[1 + i]), pt[1 + i]) for i in range(dx)), P.ZERO)
                    return [D(N, pt[0]) + T * (-q[0] * lap - N * (q[1] - sg * q[2] * N))]
                if which == "ou":
                    N = S.F(0, pt, th)
                    o1 = sum((D(q[a] * (q[2 + a] - pt[1 + a]) * N, pt[1 + a]) for a in range(2)), P.ZERO)
                    o2 = sum((D(D(c(1) / 2 * q[4 + a] * q[4 + a] * N, pt[1 + a]), pt[1 + a]) for a in range(2)), P.ZERO)
                    return [-D(N, pt[0]) + T * (-o1 + sg * o2)]
                if which == "mass":
                    return [D(S.F(0, pt, th), pt[0]) + sg * D(S.F(1, pt, th), pt[1])]
                if which == "ns":
                    U = [Su.F(0, pt, th), Su.F(1, pt, th)]
                    Pp = Sp.F(0, pt, th)
                    out = []
                    for j in range(2):
                        adv = U[0] * D(U[j], pt[0]) + U[1] * D(U[j], pt[1])
                        lap = D(D(U[j], pt[0]), pt[0]) + D(D(U[j], pt[1]), pt[1])
                        out.append(adv + D(Pp, pt[j]) / q[0] - sg * q[1] * lap)
                    return out
            k = 2 if which == "ns" else 1
            return grid_arr(t, x, time, B, dx, g, (k,))
        return dict(fn=fn, spec=spec, canary=lambda *z: spec(*z, wrong=True),
                    inputs=[Inp("th", (1,)), Inp("t", (B, 1)), Inp("x", (B, dx)), Inp("q", (6,), "pos"), Inp("Tmax", (), "pos")],
                    timeout_ms=30000)
    cls = {"burgers": "BurgerEquation", "fisher": "FisherKPP", "ou": "FPENonStatioLoss2D", "mass": "MassConservation2DStatio",
           "ns": "NavierStokes2DStatio"}[which]
    return EqObligation(f"C11/{cls}.equation[SPINN]/grid_entry_equals_pointwise[dx={dx},r={r},B={B}]", build,
                        [f"jinns.loss._DynamicLoss:{cls}.equation"])


def fisher_grid_r_ob(dx, B):
    """Fisher-KPP on a separable network with a growth rate given on the grid (what a heterogeneous r(t, x) yields for a
    separable network: one value per grid node, time axis first): node (i0, i1, ..) uses r[i0, i1, ..]"""
    def build():
        S = Sep("e", True, dx, 1, 1)
        def fn(th, t, x, D_, rg, g_, Tmax):
            return FisherKPP(Tmax=Tmax).evaluate(t, x, S.u, S.params(th, {"D": D_, "r": rg, "g": g_}))
        def spec(th, t, x, D_, rg, g_, Tmax, wrong=False):
            T = Tmax[()]
            out = np.empty((B,) * (1 + dx) + (1,), dtype=object)
            for idx, pt in grid_points(t, x, True, B, dx):
                N = S.F(0, pt, th)
                lap = sum((D(D(N, pt[1 + i]), pt[1 + i]) for i in range(dx)), P.ZERO)
                rr = rg[idx] if not wrong else rg[idx[::-1]]
                out[idx + (0,)] = D(N, pt[0]) + T * (-D_[()] * lap - N * (rr - g_[()] * N))
            return out
        return dict(fn=fn, spec=spec, canary=(lambda *z: spec(*z, wrong=True)) if B > 1 else None,
                    inputs=[Inp("th", (1,)), Inp("t", (B, 1)), Inp("x", (B, dx)), Inp("D", ()), Inp("rg", (B,) * (1 + dx)), Inp("g", ()),
                            Inp("Tmax", (), "pos")], timeout_ms=30000)
    return EqObligation(f"C11/FisherKPP.equation[SPINN]/grid_entry_equals_pointwise[dx={dx},r=1,B={B},growth_rate_given_on_the_grid]", build,
                        ["jinns.loss._DynamicLoss:FisherKPP.equation"])


class _CorrelatedOU(OU_FPENonStatioLoss2D):
    """the exported Fokker-Planck base equation with a full (correlated) noise matrix: subclassing sigma_mat is the
    documented way to do it"""
    def sigma_mat(self, t, x, eq_params):
        return eq_params["sigma"]


def fpe_full_sigma_ob(r, B):
    def build():
        S = Sep("e", True, 2, r, 1)
        def fn(th, t, x, q, sg_, Tmax):
            return _CorrelatedOU(Tmax=Tmax).evaluate(t, x, S.u, S.params(th, {"alpha": q[0:2], "mu": q[2:4], "sigma": sg_}))
        def spec(th, t, x, q, sg_, Tmax, wrong=False):
            T = Tmax[()]
            Dm = [[c(1) / 2 * sum((sg_[i, k] * sg_[j, k] for k in range(2)), P.ZERO) for j in range(2)] for i in range(2)]
            def g(pt):
                N = S.F(0, pt, th)
                o1 = sum((D(q[a] * (q[2 + a] - pt[1 + a]) * N, pt[1 + a]) for a in range(2)), P.ZERO)
                o2 = sum((D(D(Dm[i][j] * N, pt[1 + i]), pt[1 + (j if not wrong else i)]) for i in range(2) for j in range(2)), P.ZERO)
                return [-D(N, pt[0]) + T * (-o1 + o2)]
            return grid_arr(t, x, True, B, 2, g, (1,))
        return dict(fn=fn, spec=spec, canary=lambda *z: spec(*z, wrong=True),
                    inputs=[Inp("th", (1,)), Inp("t", (B, 1)), Inp("x", (B, 2)), Inp("q", (4,), "pos"), Inp("sg", (2, 2)), Inp("Tmax", (), "pos")],
                    timeout_ms=30000)
    return EqObligation(f"C11/FPENonStatioLoss2D.equation[SPINN]/grid_entry_equals_pointwise[full_noise_matrix,r={r},B={B}]", build,
                        ["jinns.loss._DynamicLoss:FPENonStatioLoss2D.equation", "jinns.loss._DynamicLoss:OU_FPENonStatioLoss2D.diffusion"])


def boundary_ob(cond, time, dx, r, B, facet, m=1, sel=None):
    sel = sel if sel is not None else jnp.s_[0:1]
    F_ = 2 * dx
    def build():
        S = Sep("e", time, dx, r, m)
        nsel = sel.stop - sel.start
        fpt = Opaque("fb", S.d, nsel)          # one prescribed value per selected component
        def f_grid(*a):
            g = jnp.concatenate(a, axis=-1) if len(a) > 1 else a[0]
            return jnp.vectorize(lambda y: fpt(y), signature="(n)->(k)")(g)
        fun = {("d", False): boundary_dirichlet_statio, ("n", False): boundary_neumann_statio,
               ("d", True): boundary_dirichlet_nonstatio, ("n", True): boundary_neumann_nonstatio}[(cond, time)]
        rows = 1 if dx == 1 else B
        def fn(th, bb):
            if time:
                batch = PDENonStatioBatch(times_x_inside_batch=jnp.zeros((1, S.d)), times_x_border_batch=bb)
            else:
                batch = PDEStatioBatch(inside_batch=jnp.zeros((1, S.d)), border_batch=bb)
            return fun(f_grid, batch, S.u, S.params(th), facet, sel)
        normals = {1: [(-1,), (1,)], 2: [(-1, 0), (1, 0), (0, -1), (0, 1)]}[dx]
        def spec(th, bb, wrong=False):
            tt = bb[:, 0:1, facet] if time else None
            xx = bb[:, (1 if time else 0):, facet]
            o = 1 if time else 0
            def g(pt):
                tot = P.ZERO                        # sum over the selected components (no other) of the squared mismatch
                for q in range(nsel):
                    N = S.F(sel.start + q, pt, th)
                    fv = P.app("fb", q, (), pt)
                    if cond == "d":
                        tot = tot + ((N - fv) ** 2 if not wrong else (N + fv) ** 2)
                    else:
                        nrm = normals[facet]
                        dn = sum((c(nrm[l] * (-1 if wrong else 1)) * D(N, pt[o + l]) for l in range(dx)), P.ZERO)
                        tot = tot + (dn - fv) ** 2
                return tot
            return grid_arr(tt, xx, time, rows, dx, g)
        return dict(fn=fn, spec=spec, canary=lambda *z: spec(*z, wrong=True),
                    inputs=[Inp("th", (1,)), Inp("bb", (rows, S.d, F_))])
    nm = {("d", False): "boundary_dirichlet_statio", ("n", False): "boundary_neumann_statio",
          ("d", True): "boundary_dirichlet_nonstatio", ("n", True): "boundary_neumann_nonstatio"}[(cond, time)]
    return EqObligation(f"C11/{nm}[SPINN]/grid_entry_equals_pointwise[dx={dx},r={r},B={B},facet={facet}"
                        f"{'' if m == 1 else f',outputs={m},selected={sel.start}:{sel.stop}'}]", build,
                        ["jinns.loss._boundary_conditions:" + nm, "jinns.utils._utils:_get_grid"])


def ic_ob(dx, r, B, m):
    def build():
        S = Sep("e", True, dx, r, m)
        u0 = Opaque("u0", dx, m)
        def f_grid(g):
            return jnp.vectorize(lambda y: u0(y), signature="(n)->(k)")(g)
        def fn(th, x, w):
            return initial_condition_apply(S.u, x, S.params(th), (0, None), f_grid, B, w)
        def spec(th, x, w, wrong=False):
            vals = []
            for idx in np.ndindex(*((B,) * dx)):
                pt = [c(0 if not wrong else 1)] + [x[idx[j], j] for j in range(dx)]
                vals.append(sum((w[j] * (P.app("u0", j, (), pt[1:]) - S.F(j, pt, th)) ** 2 for j in range(m)), P.ZERO))
            return arr(lambda _: mean(vals), ())
        return dict(fn=fn, spec=spec, canary=lambda *z: spec(*z, wrong=True),
                    inputs=[Inp("th", (1,)), Inp("x", (B, dx)), Inp("w", (m,))])
    return EqObligation(f"C11/initial_condition_apply[SPINN]/equals_pointwise_over_grid[dx={dx},r={r},B={B},m={m}]", build,
                        ["jinns.loss._loss_utils:initial_condition_apply", "jinns.utils._utils:_get_grid"])


def norm_ob(time, dx, r, Bs, Bt):
    def build():
        S = Sep("e", time, dx, r, 1)
        def fn(th, t, ns, L, w):
            batches = (t, ns) if time else (ns,)
            return normalization_loss_apply(S.u, batches, S.params(th), (0, 0, None) if time else (0, None), L, w)
        def spec(th, t, ns, L, w, wrong=False):
            def integral(tpt):
                vals = [S.F(0, tpt + [ns[idx[j], j] for j in range(dx)], th) for idx in np.ndindex(*((Bs,) * dx))]
                return L[()] * mean(vals)
            if time:
                v = mean([(integral([t[i, 0]]) - 1) ** 2 for i in range(Bt)])
            else:
                v = (integral([]) - 1) ** 2
            return arr(lambda _: w[()] * (v + (1 if wrong else 0)), ())
        return dict(fn=fn, spec=spec, canary=lambda *z: spec(*z, wrong=True),
                    inputs=[Inp("th", (1,)), Inp("t", (Bt, 1)), Inp("ns", (Bs, dx)), Inp("L", (), "pos"), Inp("w", ())])
    return EqObligation(f"C11/normalization_loss_apply[SPINN]/equals_pointwise_over_grid[t={int(time)},dx={dx},r={r},S={Bs},Bt={Bt}]",
                        build, ["jinns.loss._loss_utils:normalization_loss_apply"])


def dynapply_ob(r, B):
    def build():
        S = Sep("e", True, 1, r, 1)
        def fn(th, t, x, nu, w):
            return dynamic_loss_apply(BurgerEquation(Tmax=2.0).evaluate, S.u, (t, x), S.params(th, {"nu": nu}), (0, 0, None), w)
        def spec(th, t, x, nu, w, wrong=False):
            vals = []
            for idx, pt in grid_points(t, x, True, B, 1):
                N = S.F(0, pt, th)
                rr = D(N, pt[0]) + 2 * (N * D(N, pt[1]) - nu[()] * D(D(N, pt[1]), pt[1]))
                vals.append(w[()] * rr * rr)
            return arr(lambda _: mean(vals) * (2 if wrong else 1), ())
        return dict(fn=fn, spec=spec, canary=lambda *z: spec(*z, wrong=True),
                    inputs=[Inp("th", (1,)), Inp("t", (B, 1)), Inp("x", (B, 1)), Inp("nu", ()), Inp("w", ())])
    return EqObligation(f"C11/dynamic_loss_apply[SPINN]/equals_pointwise_over_grid[r={r},B={B}]", build,
                        ["jinns.loss._loss_utils:dynamic_loss_apply"])


def dynapply_axes_ob(axes, k, B):
    """dynamic term over a separable grid with any number of axes and residual components: the mean over *all* grid
    points of the weighted sum over components of the squared residual"""
    def build():
        S = Sep("g", False, axes, 1, 1)
        def dyn(x_, u_, p_):
            v = u_(x_, p_)
            return jnp.concatenate([v * (j + 1.0) for j in range(k)], axis=-1)
        def fn(th, x, w):
            return dynamic_loss_apply(dyn, S.u, (x,), S.params(th), (0, None), w)
        def spec(th, x, w, wrong=False):
            vals = []
            for idx in np.ndindex(*((B,) * axes)):
                N = S.F(0, [x[idx[j], j] for j in range(axes)], th)
                vals.append(sum((w[j] * (c(j + 1) * N) ** 2 for j in range(k)), P.ZERO))
            return arr(lambda _: mean(vals) * (2 if wrong else 1), ())
        return dict(fn=fn, spec=spec, canary=lambda *z: spec(*z, wrong=True),
                    inputs=[Inp("th", (1,)), Inp("x", (B, axes)), Inp("w", (k,))])
    return EqObligation(f"C11/dynamic_loss_apply[SPINN]/equals_pointwise_over_grid[grid_axes={axes},components={k},B={B}]", build,
                        ["jinns.loss._loss_utils:dynamic_loss_apply"])


def user_return_ob(form):
    """_check_user_func_return: whatever documented form the user's function returns (python number, 0-d array, grid
    values with or without the trailing component axis), the value subtracted from the network's grid values is the
    user's value at that grid point"""
    from jinns.utils._utils import _check_user_func_return
    shape = (2, 3, 1)
    def build():
        if form in ("python_float", "python_int"):
            const = 2.5 if form == "python_float" else 3
            def fn(v):
                return _check_user_func_return(const, shape) + jnp.zeros(shape) + 0.0 * v
            def spec(v, wrong=False):
                return arr(lambda i: c(const if not wrong else const + 1), shape)
            inputs = [Inp("v", ())]
        elif form == "zero_d":
            def fn(v):
                return _check_user_func_return(v, shape) + jnp.zeros(shape)
            def spec(v, wrong=False):
                return arr(lambda i: v[()] * (2 if wrong else 1), shape)
            inputs = [Inp("v", ())]
        elif form == "zero_d_integer":
            def fn(v):
                return _check_user_func_return(v, shape) + jnp.zeros(shape)
            def spec(v, wrong=False):
                return arr(lambda i: v[()] * (2 if wrong else 1), shape)
            inputs = [Inp("v", (), "int")]
        elif form == "trailing_axis":
            def fn(v):
                return _check_user_func_return(v, shape) + jnp.zeros(shape)
            def spec(v, wrong=False):
                return arr(lambda i: v[i] if not wrong else v[i[0], (i[1] + 1) % 3, 0], shape)
            inputs = [Inp("v", shape)]
        else:                                   # the grid values without the trailing component axis
            def fn(v):
                return _check_user_func_return(v, shape) + jnp.zeros(shape)
            def spec(v, wrong=False):
                return arr(lambda i: v[i[0], i[1]] if not wrong else v[i[0], (i[1] + 1) % 3], shape)
            inputs = [Inp("v", shape[:-1])]
        return dict(fn=fn, spec=spec, canary=lambda *z: spec(*z, wrong=True), inputs=inputs)
    return EqObligation(f"C11/_check_user_func_return/ensures.value_at_grid_point[user_function_returns={form}]", build,
                        ["jinns.utils._utils:_check_user_func_return"])


def obligations(tier):
    obs = [user_return_ob(f) for f in ("python_float", "python_int", "zero_d", "zero_d_integer", "trailing_axis", "no_trailing_axis")]
    rB = [(1, 2), (2, 1)] if tier == "quick" else [(1, 1), (1, 2), (2, 1), (2, 2)]
    for time in (False, True):
        for dx in (1, 2, 3):
            if time and dx == 3:
                continue
            for (r, B) in rB:
                if (dx + time) == 3 and r == 2 and B == 2:
                    continue
                obs.append(operator_ob("lap", time, dx, r, B))
                obs.append(operator_ob("div", time, dx, r, B))
                if dx >= 2 or tier == "thorough":
                    obs.append(operator_ob("veclap", time, dx, r, B))
                if dx == 2:
                    obs.append(operator_ob("adv", time, dx, r, B))
    # a vector field whose number of components is not the dimension (e.g. (ux, uy, p) on a 2-D grid)
    obs.append(operator_ob("veclap", False, 2, 1, 2, m_=3))
    obs.append(operator_ob("veclap", True, 1, 1, 2, m_=2))
    obs.append(operator_ob("veclap", False, 3, 1, 1, m_=2))
    for (r, B) in rB:
        obs.append(equation_ob("burgers", 1, r, B))
        obs.append(equation_ob("fisher", 1, r, B))
        obs.append(equation_ob("mass", 2, r, B))
        obs.append(equation_ob("ns", 2, r, B))
    obs.append(equation_ob("fisher", 2, 1, 2))
    obs.append(equation_ob("ou", 2, 1, 2))
    if tier == "thorough":
        obs.append(equation_ob("ou", 2, 2, 1))
    for cond in ("d", "n"):
        for time in (False, True):
            for dx in (1, 2):
                for facet in range(2 * dx):
                    if tier == "quick" and dx == 2 and facet in (1, 2):
                        continue
                    obs.append(boundary_ob(cond, time, dx, 1, 2, facet))
                    if dx == 2 and (tier == "thorough" or facet == 3):
                        obs.append(boundary_ob(cond, time, dx, 1, 1, facet))     # a single border row per facet
    # networks with several outputs and a condition on one of them
    for cond in ("d", "n"):
        for time in (False, True):
            for dx, facet in ((1, 1), (2, 0), (2, 3)):
                obs.append(boundary_ob(cond, time, dx, 1, 2, facet, m=2, sel=jnp.s_[1:2]))
                if facet == 2 * dx - 1:       # several selected components
                    obs.append(boundary_ob(cond, time, dx, 1, 2, facet, m=3, sel=jnp.s_[1:3]))
    obs.append(fpe_full_sigma_ob(1, 2))
    obs += [fisher_grid_r_ob(1, 2), fisher_grid_r_ob(2, 2)]
    for dx in (1, 2):
        obs.append(ic_ob(dx, 1, 2, 1))
        obs.append(ic_ob(dx, 2, 2 if dx == 1 else 1, 2))
    for time in (False, True):
        for dx in (1, 2):
            obs.append(norm_ob(time, dx, 1, 2, 2))
    obs.append(norm_ob(True, 1, 1, 4, 2))
    obs.append(dynapply_ob(1, 2))
    obs += [dynapply_axes_ob(1, 2, 2), dynapply_axes_ob(3, 1, 2), dynapply_axes_ob(2, 2, 2), dynapply_axes_ob(3, 2, 1 if tier == "quick" else 2)]
    return obs
