"""
C16 — residual-adaptive refinement follows its schedule and never exceeds capacity (Engine A, unbounded).
C17 — refinement adds the highest-residual candidates and keeps active points (obligations `C17/...` defined here too).
Under contract (jinns/solver/_rar.py, jinns/data/_DataGenerators.py): _check_and_set_rar_parameters, init_rar,
_proceed_to_rar, trigger_rar, rar_step_false and the three branches of rar_step_true, with a loop contract (closed form
proved by induction) for each fori_loop that rewrites a probability vector.
State: c = rar_iter_from_last_sampling, J = rar_iter_nb, p (probabilities), the stores.  All schedule integers, store
sizes, candidate / selected sizes and the iteration number are z3 integers.
  ACTIVE(J): for all k in [0, n): p[k] != 0  <=>  k < n_start + J*selected, and n_start + J*selected <= n
  SCHED    : at the start of iteration i:  i <= start => c = every - 1 ;  i > start => c = (i - start - 1) mod every
"""
import time
import z3
from contracts.common import FnObligation
from vf import pyvc
from vf.pyvc import Executor, Rec, SArr, Key, Builtin, prove, zint, zreal

from vf.paths import R, REPO as _REPO
SRC = [R("/repo/jinns/data/_DataGenerators.py"), R("/repo/jinns/solver/_rar.py"), R("/repo/jinns/data/_Batchs.py")]
LOSS_SRC = [R("/repo/jinns/loss/_LossODE.py"), R("/repo/jinns/loss/_LossPDE.py")]        # class declarations only (which attributes exist)
DG, RAR = "jinns.data._DataGenerators:", "jinns.solver._rar:"
META = dict(
    trusted_base=[
        "Engine A: Python subset semantics and jnp / lax models of vf/pyvc.py (dynamic_update_slice clamps as XLA does)",
        "counting lemma: if p[k] != 0 <=> k < m on [0, n) with 0 <= m <= n then count_nonzero(p == 0) = n - m",
        "assumed contracts: jax.random.uniform (values in [minval, maxval]), jax.random.split (fresh keys), jnp.argsort (sorting "
        "permutation), jax.lax.top_k (indices of the k largest, largest first), jnp.unravel_index (div / mod by the column count)",
        "the per-candidate residual is an uninterpreted function of the candidate row (network, loss and parameters are fixed during a step)",
        "iteration rule: invariants ACTIVE / SCHED hold after any number of training iterations (Hoare rule, not re-proved)",
        "z3"],
    bounded_in={"spatial dimension": "2 (column count of the space store is concrete)", "generator kinds": "ODE, stationary, non-stationary"},
    unbounded_in=["start_iter, update_every, iteration number", "n, nt, n_start, nt_start, candidate and selected sizes, number of steps J",
                  "store contents, residual landscape"],
    assumptions=["rar_parameters are positive integers with selected <= sample size; n_start >= 1"],
)

n, nt, n0, nt0, J, c, selt, selx, St, Sx, start, every, it = z3.Ints("n nt n_start nt_start J c sel_t sel_x S_t S_x start every i")
k_, q_ = z3.Ints("k q")
LIBX = {nm: Builtin("class:" + nm) for nm in ("LossODE", "SystemLossODE", "LossPDEStatio", "LossPDENonStatio", "SystemLossPDE",
                                             "HYPERPINN", "SPINN")}
LIBX["partial"] = lambda ex, a, k, pc: (lambda ex_, a2, k2, pc2: a2[0])     # decorators are no-ops
# the NaN test of a parameter tree: an unconstrained Boolean of the parameters (the schedule must not depend on it)
LIBX["_check_nan_in_pytree"] = lambda ex, a, k, pc: z3.Bool("parameters_contain_a_nan")


def store(name, shape):
    f = z3.Function(name, *([z3.IntSort()] * len(shape) + [z3.RealSort()]))
    return SArr(shape, lambda *k: f(*[zint(x) for x in k]), "real")


def active_p(name, size, m):
    """a probability vector satisfying ACTIVE: non-zero exactly on [0, m)"""
    u = z3.Function(name, z3.IntSort(), z3.RealSort())
    # any positive real (not only values >= 1: real probabilities are 1 / count), without a side axiom
    pos = lambda k: z3.If(u(zint(k)) > 0, u(zint(k)), 1 - u(zint(k)))
    return SArr((size,), lambda k: z3.If(zint(k) < m, pos(k), z3.RealVal(0)), "real")


def rarp():
    return {"start_iter": start, "update_every": every, "sample_size_times": St, "selected_sample_size_times": selt,
            "sample_size_omega": Sx, "selected_sample_size_omega": selx}


class _Pre(list):
    """BASE_PRE + ... ; `.of(kind)`: for a non-stationary generator the candidates are the S_t x S_x pairs, so a selected
    size need only not exceed the number of pairs (it may exceed its own axis' candidate count)"""
    def of(self, kind):
        if kind != "nonstatio":
            return list(self)
        drop = {str(St >= selt), str(Sx >= selx)}
        return [p_ for p_ in self if str(p_) not in drop] + [selt <= St * Sx, selx <= St * Sx, St >= 1, Sx >= 1]


BASE_PRE = _Pre([start >= 0, every >= 1, J >= 0, it >= 0, selt >= 1, selx >= 1, St >= selt, Sx >= selx, n0 >= 1, nt0 >= 1,
            n0 + J * selx <= n, nt0 + J * selt <= nt, c >= 0])


def gen(kind, dim=2):
    mt, mx = nt0 + J * selt, n0 + J * selx
    if kind == "ODE":
        return Rec("DataGeneratorODE", dict(key=Key(), nt=nt, tmin=z3.Real("tmin"), tmax=z3.Real("tmax"), temporal_batch_size=z3.Int("bt"),
                                            method="uniform", rar_parameters=rarp(), nt_start=nt0, p_times=active_p("pt", nt, mt),
                                            rar_iter_from_last_sampling=c, rar_iter_nb=J, curr_time_idx=z3.Int("it_"),
                                            times=store("times", (nt,))))
    f = dict(key=Key(), n=n, nb=None, omega_batch_size=z3.Int("bx"), omega_border_batch_size=None, dim=dim,
             min_pts=(z3.Real("xmin"), z3.Real("ymin"))[:dim], max_pts=(z3.Real("xmax"), z3.Real("ymax"))[:dim], method="uniform",
             rar_parameters=rarp(), n_start=n0, p_omega=active_p("px", n, mx), p_border=None, rar_iter_from_last_sampling=c,
             rar_iter_nb=J, curr_omega_idx=z3.Int("ix_"), curr_omega_border_idx=None, omega=store("omega", (n, dim)), omega_border=None)
    if kind == "statio":
        return Rec("CubicMeshPDEStatio", f)
    f.update(temporal_batch_size=z3.Int("bt"), tmin=z3.Real("tmin"), tmax=z3.Real("tmax"), nt=nt, cartesian_product=True, nt_start=nt0,
             p_times=active_p("pt", nt, mt), curr_time_idx=z3.Int("it_"), times=store("times", (nt,)))
    return Rec("CubicMeshPDENonStatio", f)


def loss_of(kind, system=False):
    if system:
        cls = "SystemLossODE" if kind == "ODE" else "SystemLossPDE"
        # a system loss has a dictionary of networks and no single network `u`
        return Rec(cls, dict(u_dict={"u": Rec("PINN", {}), "v": Rec("PINN", {})},
                             dynamic_loss_dict={"e1": Rec("DynamicLoss", {}), "e2": Rec("DynamicLoss", {})}))
    cls = {"ODE": "LossODE", "statio": "LossPDEStatio", "nonstatio": "LossPDENonStatio"}[kind]
    return Rec(cls, dict(u=Rec("PINN", {}), dynamic_loss=Rec("DynamicLoss", {})))


def executor():
    ex = Executor(SRC + LOSS_SRC, lib=LIBX)
    ex.contracts["DynamicLoss.evaluate"] = None
    del ex.contracts["DynamicLoss.evaluate"]
    return ex


def _count_sizes(kind):
    return {"ODE": [(nt, nt0 + J * selt)], "statio": [(n, n0 + J * selx)], "nonstatio": [(nt, nt0 + J * selt), (n, n0 + J * selx)]}[kind]


def counting_lemma(ex, kind):
    """count_nonzero(mask) = size - active when mask is true exactly on the inactive slots [m, size) of the ACTIVE
    vectors built by gen() (trusted: counting an interval); that the counted mask *is* that set is `counting_goals`"""
    ax = []
    for (cnt, arr), (size, m) in zip(getattr(ex, "counts", []), _count_sizes(kind)):
        ax.append(cnt == size - m)
    return ax


def counting_goals(ex, kind):
    """what the code counts is the set of inactive slots (probability exactly zero), for every admissible probability
    vector: an active slot may carry any positive probability, however small"""
    k = z3.Int("slot")
    goals = []
    for q, ((cnt, arr), (size, m)) in enumerate(zip(getattr(ex, "counts", []), _count_sizes(kind))):
        if not isinstance(arr, SArr):
            goals.append((f"counted_mask[{q}]_is_an_array", z3.BoolVal(False)))
            continue
        goals.append((f"counted_slots[{q}]_are_exactly_the_inactive_ones",
                      z3.Implies(z3.And(k >= 0, k < size), pyvc.zbool(arr.elem(k)) == (k >= m))))
    return goals


def result(name, goals, pre, ex, t0, extra_axioms=(), canary=None):
    """discharge named goals; the executor's side obligations (loop contracts, positive divisors ...) are goals too"""
    extra_axioms = list(extra_axioms) + list(getattr(ex, "extra_axioms", []))       # facts of library models (e.g. finfo.eps > 0)
    for nm, g in goals:
        st, model = prove(g, pre, axioms=list(extra_axioms), timeout_ms=30000)
        if st != "unsat":
            return failure(name + "." + nm, st, model)
    for nm, pc_, g in ex.obligations:
        st, model = prove(g, pre + list(pc_), axioms=list(extra_axioms), timeout_ms=30000)
        if st != "unsat":
            return failure(name + ".side:" + nm, st, model)
    out = dict(status="discharged", backend="pyvc+z3", solver_s=time.time() - t0,
               sample=f"{ex.stmts_visited} statements executed; goals: {[g[0] for g in goals]}; side obligations: {len(ex.obligations)}")
    if canary is not None:
        st, _ = prove(canary, pre, axioms=list(extra_axioms), timeout_ms=20000)
        if st == "unsat":
            return dict(status="error", detail=f"{name}: vacuity guard: the deliberately wrong postcondition verified")
        out["canary"] = "refuted" if st == "sat" else "not-refuted"
    return out


def failure(name, st, model):
    if st == "unknown":
        return dict(status="undecided", backend="z3", detail=f"{name}: z3 unknown")
    vals = {str(d): str(model[d]) for d in model.decls() if d.arity() == 0 and "!" not in str(d)}
    nat = native_rar_monitor(vals)
    return dict(status="violated", failure="value", backend="pyvc+z3", detail=f"{name} refuted; counter-model {vals}",
                replay=dict(native_disagrees=bool(nat), solver_model=vals, native=nat or "the native RAR monitor saw no violation",
                            expected="schedule start + k*every; active count n_start + J*selected; active points kept",
                            inputs={k: vals.get(k) for k in ("start", "every", "n_start", "nt_start", "sel_t", "sel_x", "J", "i")}))


# ------------------------------------------------------------------------------ obligations

def ob_constructor():
    name = "C16/_check_and_set_rar_parameters/ensures.ACTIVE(0)_and_counters"
    def run(seed):
        t0 = time.time()
        ex = executor()
        outs = ex.call_function("_check_and_set_rar_parameters", [rarp(), n, n0])
        (o,) = outs
        ns, p, c0, J0 = o.value
        pre = [n0 >= 1, n0 <= n, every >= 1, k_ >= 0, k_ < n] + list(o.pc)
        goals = [("active", (zreal(p.elem(k_)) != 0) == (k_ < n0)), ("counter", zint(c0) == every - 1), ("steps", zint(J0) == 0),
                 ("n_start", zint(ns) == n0), ("shape", zint(p.shape[0]) == n)]
        return result(name, goals, pre, ex, t0, canary=(zreal(p.elem(k_)) != 0) == (k_ <= n0))
    return FnObligation(name, run, [DG + "_check_and_set_rar_parameters"])


def ob_init_rar(kind):
    name = f"C16/init_rar/ensures.schedule_state_unchanged[{kind}]"
    def run(seed):
        t0 = time.time()
        ex = executor()
        data = gen(kind)
        outs = ex.call_function("init_rar", [data])
        (o,) = outs
        d2, f_true, f_false = o.value
        pre = BASE_PRE.of(kind) + list(o.pc)
        goals = [("counter_unchanged", zint(d2.fields["rar_iter_from_last_sampling"]) == c),
                 ("steps_unchanged", zint(d2.fields["rar_iter_nb"]) == J),
                 ("closures_returned", z3.BoolVal(f_true is not None and f_false is not None))]
        return result(name, goals, pre, ex, t0)
    return FnObligation(name, run, [RAR + "init_rar", RAR + "_rar_step_init"],
                        native_fallback=lambda: _native_rar_two_trainings() or native_rar_monitor({}))


def ob_proceed(kind, zero=None):
    """zero: 't' | 'x' — a non-stationary generator that refines only one of its two stores (the other selected size is 0)"""
    name = f"C16/_proceed_to_rar/ensures.fires_iff[{kind}{'' if zero is None else ',selected_' + ('times' if zero == 't' else 'omega') + '=0'}]"
    def run(seed):
        t0 = time.time()
        ex = executor()
        data = gen(kind)
        outs = ex.call_function("_proceed_to_rar", [data, it])
        (o,) = outs
        fires = ex.truth(o.value)
        cap = []
        if kind in ("ODE", "nonstatio"):
            cap.append(selt <= nt - (nt0 + J * selt))
        if kind in ("statio", "nonstatio"):
            cap.append(selx <= n - (n0 + J * selx))
        spec = z3.And(it >= start, c == every - 1, *cap)
        pre = BASE_PRE.of(kind) + list(o.pc)
        if zero is not None:
            z_ = selt if zero == "t" else selx
            pre = [p_ for p_ in pre if not (z3.is_ge(p_) and p_.arg(0).eq(z_))] + [z_ == 0]
        return result(name, counting_goals(ex, kind) + [("fires_iff", fires == spec)], pre, ex, t0, extra_axioms=counting_lemma(ex, kind),
                      canary=fires == z3.And(it > start, c == every - 1, *cap))
    return FnObligation(name, run, [RAR + "_proceed_to_rar"])


def closures(ex, kind):
    if kind == "ODE":
        outs = ex.call_function("_rar_step_init", [St, selt])
    elif kind == "statio":
        outs = ex.call_function("_rar_step_init", [Sx, selx])
    else:
        outs = ex.call_function("_rar_step_init", [(St, Sx), (selt, selx)])
    return outs[0].value


def ob_step_false(kind):
    name = f"C16/rar_step_false/ensures.counter_only[{kind}]"
    def run(seed):
        t0 = time.time()
        ex = executor()
        data = gen(kind)
        _, f_false = closures(ex, kind)
        (res,) = ex.apply(f_false, [(loss_of(kind), Rec("Params", {}), data, it)], {}, [])
        d2, pc = res
        pre = BASE_PRE.of(kind) + list(pc)
        goals = [("counter", zint(d2.fields["rar_iter_from_last_sampling"]) == c + z3.If(it > start, 1, 0))]
        for fld in data.fields:
            if fld != "rar_iter_from_last_sampling":
                goals.append((f"unchanged.{fld}", z3.BoolVal(d2.fields[fld] is data.fields[fld])))
        return result(name, goals, pre, ex, t0, canary=zint(d2.fields["rar_iter_from_last_sampling"]) == c + z3.If(it >= start, 1, 0))
    return FnObligation(name, run, [RAR + "_rar_step_init.rar_step_false"])


def loop_contract(p_before, first, size, stride, value):
    """closed form of `fori_loop(0, hi, update_slices, p)`: slices [first + t*stride, first + (t+1)*stride), t < i, set to `value`"""
    def mk(lo, hi, init):
        def closed(i):
            return SArr(init.shape, lambda k: z3.If(z3.And(zint(k) >= first, zint(k) < first + zint(i) * stride), value, zreal(init.elem(k))), "real")
        return closed
    return mk


def run_step_true(kind, dim=2, system=False, cols=None):
    ex = executor()
    ex.residual_cols = cols
    data = gen(kind, dim)
    mt, mx = nt0 + J * selt, n0 + J * selx
    # loop contracts (ordinal order of the fori_loops in the executed branch); the written value is whatever the code
    # writes (captured through an uninterpreted positive constant is not needed: we take it from the body itself)
    ex.loop_contracts = []
    vt, vx = z3.Real("written_value_t"), z3.Real("written_value_x")
    if kind == "ODE":
        ex.loop_contracts = [lambda lo, hi, init: (lambda i: SArr(init.shape, lambda k: z3.If(
            z3.And(zint(k) >= nt0, zint(k) < nt0 + zint(i) * selt), (nt0 + J * selt) * 1.0, zreal(init.elem(k))), "real"))]
    elif kind == "statio":
        ex.loop_contracts = [lambda lo, hi, init: (lambda i: SArr(init.shape, lambda k: z3.If(
            z3.And(zint(k) >= n0, zint(k) < n0 + zint(i) * selx), (n0 + J * selx) * 1.0, zreal(init.elem(k))), "real"))]
    else:
        ex.loop_contracts = [
            lambda lo, hi, init: (lambda i: SArr(init.shape, lambda k: z3.If(
                z3.And(zint(k) >= nt0, zint(k) < nt0 + zint(i) * selt), 1 / zreal(nt0 + J * selt), zreal(init.elem(k))), "real")),
            lambda lo, hi, init: (lambda i: SArr(init.shape, lambda k: z3.If(
                z3.And(zint(k) >= n0, zint(k) < n0 + zint(i) * selx), 1 / zreal(n0 + J * selx), zreal(init.elem(k))), "real"))]
    f_true, _ = closures(ex, kind)
    (res,) = ex.apply(f_true, [(loss_of(kind, system), Rec("Params", {}), data, it)], {}, [])
    d2, pc = res
    return ex, data, d2, pc, mt, mx


def ob_step_true(kind, clause, cols=None):
    """cols: None = the equation returns a scalar per candidate; k = a residual vector with k components (squared
    residual = sum of the squared components)"""
    name = f"{'C17' if clause in C17_CLAUSES else 'C16'}/rar_step_true/ensures.{clause}[{kind}{'' if cols is None else ',residual_components=' + str(cols)}]"
    def run(seed):
        t0 = time.time()
        ex, data, d2, pc, mt, mx = run_step_true(kind, cols=cols)
        # a firing step has capacity for a full set (precondition established by _proceed_to_rar)
        cap = []
        if kind in ("ODE", "nonstatio"):
            cap.append(mt + selt <= nt)
        if kind in ("statio", "nonstatio"):
            cap.append(mx + selx <= n)
        pre = BASE_PRE.of(kind) + cap + list(pc) + [k_ >= 0, q_ >= 0]
        goals, canary = [], None
        T, X = kind in ("ODE", "nonstatio"), kind in ("statio", "nonstatio")
        if clause == "counters":
            goals = [("steps_incremented", zint(d2.fields["rar_iter_nb"]) == J + 1),
                     ("period_counter_reset", zint(d2.fields["rar_iter_from_last_sampling"]) == 0)]
            canary = zint(d2.fields["rar_iter_nb"]) == J
        elif clause == "ACTIVE(J+1)":
            if T:
                goals.append(("time", z3.Implies(k_ < nt, (zreal(d2.fields["p_times"].elem(k_)) != 0) == (k_ < mt + selt))))
                canary = z3.Implies(k_ < nt, (zreal(d2.fields["p_times"].elem(k_)) != 0) == (k_ < mt))
            if X:
                goals.append(("space", z3.Implies(k_ < n, (zreal(d2.fields["p_omega"].elem(k_)) != 0) == (k_ < mx + selx))))
                canary = z3.Implies(k_ < n, (zreal(d2.fields["p_omega"].elem(k_)) != 0) == (k_ < mx))
        elif clause == "active_points_kept":
            if T:
                goals.append(("time", z3.Implies(k_ < mt, d2.fields["times"].elem(k_) == data.fields["times"].elem(k_))))
                goals.append(("time_untouched_beyond", z3.Implies(z3.And(k_ >= mt + selt, k_ < nt),
                                                                  d2.fields["times"].elem(k_) == data.fields["times"].elem(k_))))
            if X:
                col = z3.Int("col")
                pre = pre + [col >= 0, col < 2]
                goals.append(("space", z3.Implies(k_ < mx, d2.fields["omega"].elem(k_, col) == data.fields["omega"].elem(k_, col))))
                goals.append(("space_untouched_beyond", z3.Implies(z3.And(k_ >= mx + selx, k_ < n),
                                                                   d2.fields["omega"].elem(k_, col) == data.fields["omega"].elem(k_, col))))
        elif clause == "adds_highest_residual_candidates":
            goals, ax = selection_goals(ex, kind, data, d2, mt, mx, cols)
            # "residual" is the residual of the training loss: DynamicLoss.evaluate (heterogeneous parameters applied), not
            # the bare user equation
            meths = getattr(ex, "residual_methods", [])
            goals = [("candidates_ranked_by_DynamicLoss.evaluate", z3.BoolVal(bool(meths) and all(m_ == "evaluate" for m_ in meths)))] + goals
            return result(name, goals, pre, ex, t0, extra_axioms=ax)
        elif clause == "candidates_in_domain":
            goals = domain_goals(ex, kind, data, d2, mt, mx)
        elif clause == "shapes_unchanged":
            if T:
                goals += [("times", zint(d2.fields["times"].shape[0]) == nt), ("p_times", zint(d2.fields["p_times"].shape[0]) == nt)]
            if X:
                goals += [("omega", z3.And(zint(d2.fields["omega"].shape[0]) == n, zint(d2.fields["omega"].shape[1]) == 2)),
                          ("p_omega", zint(d2.fields["p_omega"].shape[0]) == n)]
        return result(name, goals, pre, ex, t0, canary=canary)
    # where the symbolic execution cannot follow (e.g. module-level state): the bounded native monitors of the real loop
    return FnObligation(name, run, [RAR + "_rar_step_init.rar_step_true"], native_fallback=lambda: native_rar_monitor({}))


def selection_goals(ex, kind, data, d2, mt, mx, cols=None):
    """the new slice holds, in order, the candidates ranked highest by squared residual"""
    goals, ax = [], []
    def sq(rf, t):
        if cols is None:
            return rf(t) * rf(t)
        return sum((rf(t, z3.IntVal(c_)) * rf(t, z3.IntVal(c_)) for c_ in range(cols)), z3.RealVal(0))
    samples = [u for u in getattr(ex, "uniforms", [])]
    res = getattr(ex, "residuals", [])
    if kind in ("ODE", "statio"):
        (sig, sorted_arr), = getattr(ex, "sorts", [(None, None)])
        if sig is None:
            raise pyvc.Unsupported("no argsort found in the executed branch")
        rf = res[0][0]
        S, sel = (St, selt) if kind == "ODE" else (Sx, selx)
        t = z3.Int("t")
        goals.append(("ranked_by_squared_residual", z3.Implies(z3.And(t >= 0, t < S), zreal(sorted_arr.elem(t)) == sq(rf, t))))
        ax += pyvc.norm_axioms(ex, [t])
        if kind == "ODE":
            lo, hi, uf = samples[0]
            goals.append(("new_slice_is_top_of_ranking", z3.Implies(q_ < sel, d2.fields["times"].elem(mt + q_) == uf(sig(S - sel + q_)))))
        else:
            col = z3.Int("col")
            ufs = [u[2] for u in samples[-2:]]
            goals.append(("new_slice_is_top_of_ranking", z3.Implies(q_ < sel, z3.And(
                d2.fields["omega"].elem(mx + q_, 0) == ufs[0](sig(S - sel + q_), 0),
                d2.fields["omega"].elem(mx + q_, 1) == ufs[1](sig(S - sel + q_), 0)))))
        # argsort contract instantiated at the points used (range of the permutation)
        for pt in (S - sel + q_,):
            ax.append(z3.Implies(z3.And(pt >= 0, pt < S), z3.And(sig(pt) >= 0, sig(pt) < S)))
    else:
        (top, flat, kk), = getattr(ex, "topks", [(None, None, None)])
        if top is None:
            raise pyvc.Unsupported("no top_k found in the executed branch")
        rf = res[0][0]
        t = z3.Int("t")
        goals.append(("ranked_by_squared_residual", z3.Implies(z3.And(t >= 0, t < St * Sx), zreal(flat.elem(t)) == rf(t) * rf(t))))
        goals.append(("k_is_max_of_selected_sizes", zint(kk) == z3.If(selt >= selx, selt, selx)))
        uts, ux0, ux1 = samples[0][2], samples[1][2], samples[2][2]
        goals.append(("times_from_first_pairs", z3.Implies(q_ < selt, d2.fields["times"].elem(mt + q_) == uts(top(q_) / Sx))))
        goals.append(("space_from_first_pairs", z3.Implies(q_ < selx, z3.And(
            d2.fields["omega"].elem(mx + q_, 0) == ux0(top(q_) % Sx, 0), d2.fields["omega"].elem(mx + q_, 1) == ux1(top(q_) % Sx, 0)))))
        ax.append(z3.Implies(z3.And(q_ >= 0, q_ < kk), z3.And(top(q_) >= 0, top(q_) < St * Sx)))
    return goals, ax


def domain_goals(ex, kind, data, d2, mt, mx):
    """every candidate is drawn from the generator's own domain (range contract of jax.random.uniform)"""
    goals = []
    us = getattr(ex, "uniforms", [])
    f = data.fields
    exp = []
    if kind in ("ODE", "nonstatio"):
        exp.append((zreal(f["tmin"]), zreal(f["tmax"])))
    if kind in ("statio", "nonstatio"):
        exp += [(zreal(f["min_pts"][0]), zreal(f["max_pts"][0])), (zreal(f["min_pts"][1]), zreal(f["max_pts"][1]))]
    goals.append(("number_of_draws", z3.BoolVal(len(us) == len(exp))))
    for idx, ((lo, hi, _), (elo, ehi)) in enumerate(zip(us, exp)):
        goals.append((f"range{idx}", z3.And(lo == elo, hi == ehi)))
    return goals


C16_CLAUSES = ["counters", "ACTIVE(J+1)", "shapes_unchanged"]
C17_CLAUSES = ["active_points_kept", "adds_highest_residual_candidates", "candidates_in_domain"]


def ob_trigger(kind):
    name = f"C16/trigger_rar/ensures.step_true_iff_proceed[{kind}]"
    def run(seed):
        t0 = time.time()
        ex = executor()
        data = gen(kind)
        # marker branches: the true branch tags the step count with +100, the false branch with -100
        br_t = lambda ex_, a, k, pc: a[0][2].replace(rar_iter_nb=J + 100)
        br_f = lambda ex_, a, k, pc: a[0][2].replace(rar_iter_nb=J - 100)
        loss_in, params_in = loss_of(kind), Rec("Params", {"nn_params": z3.Real("theta"), "eq_params": {"a": z3.Real("a_param")}})
        (o,) = ex.call_function("trigger_rar", [it, loss_in, params_in, data, br_t, br_f])
        loss_out, params_out, d2 = o.value
        if loss_out is not loss_in or params_out is not params_in:
            # frame clause: refinement changes the generator only; the loss and the parameters are handed back as they came
            return dict(status="violated", failure="frame", backend="pyvc",
                        detail="trigger_rar does not return the loss / the parameters it was given (a refinement step only changes the generator)",
                        replay=dict(native_disagrees=bool(_safe_native(native_trigger_returns_params)),
                                    native=_safe_native(native_trigger_returns_params) or "not reproduced natively",
                                    expected="the same loss and parameters"))
        cap = []
        if kind in ("ODE", "nonstatio"):
            cap.append(selt <= nt - (nt0 + J * selt))
        if kind in ("statio", "nonstatio"):
            cap.append(selx <= n - (n0 + J * selx))
        fires = z3.And(it >= start, c == every - 1, *cap)
        goal = zint(d2.fields["rar_iter_nb"]) == z3.If(fires, J + 100, J - 100)
        return result(name, counting_goals(ex, kind) + [("dispatch", goal)], BASE_PRE.of(kind) + list(o.pc), ex, t0, extra_axioms=counting_lemma(ex, kind),
                      canary=zint(d2.fields["rar_iter_nb"]) == z3.If(fires, J - 100, J + 100))
    return FnObligation(name, run, [RAR + "trigger_rar", RAR + "_proceed_to_rar"],
                        native_fallback=lambda: _safe_native(native_trigger_returns_params) or native_rar_monitor({}))


def ob_no_rar():
    name = "C16/trigger_rar/ensures.identity_without_rar_parameters"
    def run(seed):
        t0 = time.time()
        ex = executor()
        data = gen("ODE").replace(rar_parameters=None)
        (o,) = ex.call_function("trigger_rar", [it, loss_of("ODE"), Rec("Params", {}), data, None, None])
        ok = o.value[2] is data
        return dict(status="discharged" if ok else "violated", backend="pyvc", solver_s=time.time() - t0, failure="value",
                    detail="" if ok else "trigger_rar changed a generator without rar_parameters", replay=dict(native_disagrees=False))
    return FnObligation(name, run, [RAR + "trigger_rar"])


def ob_step_true_1d(kind):
    """the one-dimensional space store: the step must run (and keep the counters / ACTIVE clauses)"""
    name = f"C16/rar_step_true/ensures.counters_and_ACTIVE(J+1)[{kind},dim=1]"
    def run(seed):
        t0 = time.time()
        try:
            ex, data, d2, pc, mt, mx = run_step_true(kind, dim=1)
        except pyvc.PyRaise as e:
            return dict(status="violated", failure="raises", backend="pyvc",
                        detail=f"rar_step_true raises {e.exc_name} for a 1-D space store: {e.msg}",
                        replay=dict(native_disagrees=bool(native_rar_1d()), native=native_rar_1d() or "native 1-D step ran",
                                    expected="a refinement step", inputs={"dim": 1}))
        pre = BASE_PRE + [mx + selx <= n, mt + selt <= nt, k_ >= 0] + list(pc)
        goals = [("steps_incremented", zint(d2.fields["rar_iter_nb"]) == J + 1),
                 ("space", z3.Implies(k_ < n, (zreal(d2.fields["p_omega"].elem(k_)) != 0) == (k_ < mx + selx)))]
        return result(name, goals, pre, ex, t0)
    return FnObligation(name, run, [RAR + "_rar_step_init.rar_step_true", DG + "CubicMeshPDEStatio.sample_in_omega_domain"])


def native_rar_1d():
    import jax, warnings
    import jax.numpy as jnp
    import equinox as eqx
    from jinns.solver._rar import init_rar, trigger_rar
    from jinns.data._DataGenerators import CubicMeshPDEStatio
    from jinns.loss import LossPDEStatio, PDEStatio
    from jinns.parameters import Params
    from jinns.utils._pinn import PINN
    class Dyn(PDEStatio):
        def equation(self, x, u, params):
            return jnp.sin(5.0 * x)
    rp = {"start_iter": 0, "update_every": 1, "sample_size_omega": 4, "selected_sample_size_omega": 2}
    g = CubicMeshPDEStatio(key=jax.random.PRNGKey(0), n=10, nb=None, omega_batch_size=2, omega_border_batch_size=None, dim=1,
                           min_pts=(0.0,), max_pts=(1.0,), rar_parameters=rp, n_start=4)
    class M(eqx.Module):
        w: jax.Array
        def __call__(self, x):
            return self.w * x
    u = PINN(mlp=M(jnp.ones(1)), slice_solution=jnp.s_[0:1], eq_type="statio_PDE", input_transform=lambda i, p: i, output_transform=lambda i, o, p: o)
    with warnings.catch_warnings():
        warnings.simplefilter("ignore")
        loss = LossPDEStatio(u=u, dynamic_loss=Dyn(), params=Params(nn_params=u.params, eq_params={}))
    g, ft, ff = init_rar(g)
    try:
        trigger_rar(0, loss, Params(nn_params=u.params, eq_params={}), g, ft, ff)
    except Exception as e:
        return [f"1-D stationary RAR step raises {type(e).__name__}: {str(e)[:160]}"]
    return None


def ob_sched_lemma(clause):
    name = f"C16/lemma/{clause}"
    def run(seed):
        t0 = time.time()
        q, cap = z3.Int("q"), z3.Bool("capacity")
        fire = z3.And(it >= start, c == every - 1, cap)
        c1 = z3.If(fire, 0, c + z3.If(it > start, 1, 0))
        pre = [start >= 0, every >= 1, it >= 0]
        # SCHED with an explicit quotient: i > start => i - start - 1 = q*every + c, 0 <= c < every
        sched = lambda i_, c_, q_: z3.And(z3.Implies(i_ <= start, c_ == every - 1),
                                          z3.Implies(i_ > start, z3.And(i_ - start - 1 == q_ * every + c_, c_ >= 0, c_ < every, q_ >= 0)))
        q1 = z3.If(z3.And(it > start, c == every - 1), q + 1, q)
        goals = {
            "SCHED_established": ([], sched(z3.IntVal(0), every - 1, z3.IntVal(0))),
            "SCHED_preserved_while_capacity": ([sched(it, c, q), cap], sched(it + 1, c1, z3.If(it == start, 0, q1))),
            "fires_exactly_at_start_plus_k_every": ([sched(it, c, q), cap],
                                                    fire == z3.And(it >= start, z3.Or(it == start, it - start == (q + 1) * every))),
            "nothing_before_start": ([it < start], z3.Not(fire)),
            "no_step_without_capacity": ([z3.Not(cap)], z3.Not(fire)),
            "after_capacity_is_exhausted_never_again": ([z3.Not(cap), c >= every - 1, it > start], z3.And(c1 >= every, z3.Not(fire))),
        }
        hyp, goal = goals[clause]
        st, model = prove(goal, pre + hyp, timeout_ms=30000)
        if st == "unsat":
            return dict(status="discharged", backend="z3", solver_s=time.time() - t0, sample=str(goal)[:300])
        if st == "unknown":
            return dict(status="undecided", detail="z3 unknown")
        return dict(status="violated", failure="lemma", backend="z3", detail=f"{name}: {model}", replay=dict(native_disagrees=False, solver_output=str(model)))
    return FnObligation(name, run, [RAR + "_proceed_to_rar", RAR + "_rar_step_init"])


SCHED_LEMMAS = ["SCHED_established", "SCHED_preserved_while_capacity", "fires_exactly_at_start_plus_k_every", "nothing_before_start",
                "no_step_without_capacity", "after_capacity_is_exhausted_never_again"]


# ------------------------------------------------------------------------------ native monitor (replay)

def _native_rar_statio_vector():
    """stationary refinement with a residual *vector* per candidate (two components of mostly opposite signs): the
    candidates of each step are re-drawn with the generator's own key discipline and the activated slots are compared
    with the candidates of largest squared residual (sum of the squared components)"""
    import numpy as np, jax, warnings
    import jax.numpy as jnp
    import equinox as eqx
    from jinns.solver._rar import init_rar, trigger_rar
    from jinns.data._DataGenerators import CubicMeshPDEStatio
    from jinns.loss import LossPDEStatio, PDEStatio
    from jinns.parameters import Params
    from jinns.utils._pinn import PINN

    class Dyn(PDEStatio):
        def equation(self, x, u, params):
            f = jnp.sin(3.0 * x[0]) * (0.3 + x[1])
            return jnp.array([f + x[1], -f + 0.4 * jnp.cos(2.0 * x[1])])

    class M(eqx.Module):
        w: jax.Array
        def __call__(self, x):
            return jnp.sum(self.w * x)[None]
    u = PINN(mlp=M(jnp.ones(2)), slice_solution=jnp.s_[0:1], eq_type="statio_PDE", input_transform=lambda i, p: i, output_transform=lambda i, o, p: o)
    params = Params(nn_params=u.params, eq_params={})
    with warnings.catch_warnings():
        warnings.simplefilter("ignore")
        loss = LossPDEStatio(u=u, dynamic_loss=Dyn(), params=params)
    S, sel, n0_ = 25, 6, 12
    rp = {"start_iter": 0, "update_every": 1, "sample_size_omega": S, "selected_sample_size_omega": sel}
    g = CubicMeshPDEStatio(key=jax.random.PRNGKey(5), n=60, nb=None, omega_batch_size=4, omega_border_batch_size=None, dim=2,
                           min_pts=(-1.0, 0.5), max_pts=(2.0, 3.0), rar_parameters=rp, n_start=n0_)
    g, ft, ff = init_rar(g)
    for step in range(3):
        m = n0_ + step * sel
        _, *sub = jax.random.split(g.key, 3)
        cand = np.asarray(g.sample_in_omega_domain(sub, S))
        sq = np.asarray(jax.vmap(lambda x: jnp.sum(Dyn().evaluate(x, u, params) ** 2))(jnp.asarray(cand)))
        _, _, g2 = trigger_rar(step, loss, params, g, ft, ff)
        new = np.asarray(g2.omega)[m:m + sel]
        rows = {tuple(np.round(r, 9)) for r in cand.tolist()}
        if not all(tuple(np.round(r, 9)) in rows for r in new.tolist()):
            return None          # the candidates could not be re-drawn: no statement
        top = {tuple(np.round(r, 9)) for r in cand[np.argsort(-sq)[:sel]].tolist()}
        if {tuple(np.round(r, 9)) for r in new.tolist()} != top:
            got = sorted((float(sq[[tuple(np.round(c_, 9)) for c_ in cand.tolist()].index(tuple(np.round(r, 9)))]) for r in new.tolist()), reverse=True)
            return [f"stationary step {step} with a 2-component residual: the activated slots hold candidates with squared residuals "
                    f"{[round(v, 3) for v in got]}, the {sel} largest of the {S} candidates are {[round(float(v), 3) for v in np.sort(sq)[::-1][:sel]]}"]
        g = g2
    return None


def _native_rar_two_trainings():
    """two refinements in the same process on generators of the same layout but different RAR sizes: each one follows
    its own configuration"""
    import numpy as np, jax, warnings
    import jax.numpy as jnp
    import equinox as eqx
    from jinns.solver._rar import init_rar, trigger_rar
    from jinns.data._DataGenerators import DataGeneratorODE
    from jinns.loss import LossODE, ODE
    from jinns.parameters import Params

    class Dyn(ODE):
        def equation(self, t, u, params):
            return jnp.sin(7.0 * t) * jnp.ones((1,))

    class U(eqx.Module):
        def __call__(self, t, params):
            return jnp.zeros((1,))
    with warnings.catch_warnings():
        warnings.simplefilter("ignore")
        loss = LossODE(u=U(), dynamic_loss=Dyn(), params=Params(nn_params=None, eq_params={}))
    for (S_, sel) in ((6, 3), (5, 1), (6, 2)):
        rp = {"start_iter": 0, "update_every": 1, "sample_size_times": S_, "selected_sample_size_times": sel}
        g = DataGeneratorODE(jax.random.PRNGKey(0), 20, 0.0, 1.0, 2, "uniform", rp, 4)
        g, ft, ff = init_rar(g)
        for i in range(3):
            _, _, g = trigger_rar(i, loss, Params(nn_params=None, eq_params={}), g, ft, ff)
        act = int((np.asarray(g.p_times) != 0).sum())
        if act != 4 + 3 * sel:
            return [f"training with selected_sample_size_times={sel} (after an earlier training with another size in the same process): "
                    f"{act} active times after 3 steps, expected {4 + 3 * sel}"]
    return None


def _native_rar_two_setups_ranking():
    """two refinement set-ups in one process with the same selected size and different numbers of candidates: each step
    adds the highest-residual ones among *its own* candidates (recomputed from the generator's key with the public sampler)"""
    import numpy as np, jax, warnings
    import jax.numpy as jnp
    import equinox as eqx
    from jinns.solver._rar import init_rar, trigger_rar
    from jinns.data._DataGenerators import DataGeneratorODE
    from jinns.loss import LossODE, ODE
    from jinns.parameters import Params

    class Dyn(ODE):
        def equation(self, t, u, params):
            return (t * t + 0.1) * jnp.ones((1,))          # squared residual increasing in t: the top candidates are the largest times

    class U(eqx.Module):
        def __call__(self, t, params):
            return jnp.zeros((1,))
    with warnings.catch_warnings():
        warnings.simplefilter("ignore")
        loss = LossODE(u=U(), dynamic_loss=Dyn(), params=Params(nn_params=None, eq_params={}))
    p0 = Params(nn_params=None, eq_params={})
    for (S_, sel) in ((5, 3), (40, 3), (9, 3)):
        rp = {"start_iter": 0, "update_every": 1, "sample_size_times": S_, "selected_sample_size_times": sel}
        g = DataGeneratorODE(jax.random.PRNGKey(S_), 30, 0.0, 2.0, 2, "uniform", rp, 4)
        g, _ = g.get_batch()
        g, ft, ff = init_rar(g)
        _, sub = jax.random.split(g.key)
        cand = np.asarray(g.sample_in_time_domain(sub, S_)).ravel()
        exp = np.sort(cand)[-sel:]
        _, _, g2 = trigger_rar(0, loss, p0, g, ft, ff)
        added = np.sort(np.asarray(g2.times).ravel()[4:4 + sel])
        if not np.allclose(added, exp, atol=1e-6):
            return [f"set-up with {S_} candidates and {sel} selected (after other set-ups with the same selected size in this process): "
                    f"added times {np.round(added, 4).tolist()}, the {sel} highest-residual ones among its {S_} candidates are {np.round(exp, 4).tolist()}"]
    return None


def _native_rar_resume():
    """a second training started on an already refined generator (init_rar again): nothing that was active is lost"""
    import numpy as np, jax, warnings
    import jax.numpy as jnp
    import equinox as eqx
    from jinns.solver._rar import init_rar, trigger_rar
    from jinns.data._DataGenerators import DataGeneratorODE
    from jinns.loss import LossODE, ODE
    from jinns.parameters import Params

    class Dyn(ODE):
        def equation(self, t, u, params):
            return jnp.sin(7.0 * t) * jnp.ones((1,))

    class U(eqx.Module):
        def __call__(self, t, params):
            return jnp.zeros((1,))
    with warnings.catch_warnings():
        warnings.simplefilter("ignore")
        loss = LossODE(u=U(), dynamic_loss=Dyn(), params=Params(nn_params=None, eq_params={}))
    rp = {"start_iter": 0, "update_every": 1, "sample_size_times": 6, "selected_sample_size_times": 2}
    g = DataGeneratorODE(jax.random.PRNGKey(0), 20, 0.0, 1.0, 2, "uniform", rp, 4)
    p0 = Params(nn_params=None, eq_params={})
    g, ft, ff = init_rar(g)
    for i in range(3):
        _, _, g = trigger_rar(i, loss, p0, g, ft, ff)
    act1, t1 = int((np.asarray(g.p_times) != 0).sum()), np.asarray(g.times).copy()
    g, ft, ff = init_rar(g)            # a new training on the returned generator
    for i in range(2):
        _, _, g = trigger_rar(i, loss, p0, g, ft, ff)
    act2, t2 = int((np.asarray(g.p_times) != 0).sum()), np.asarray(g.times)
    if not np.array_equal(t2[:act1], t1[:act1]) or act2 != act1 + 4:
        lost = int((t2[:act1] != t1[:act1]).sum())
        return [f"second training on a refined generator (init_rar called again after 3 steps): {lost} previously active point(s) overwritten, "
                f"{act2} active afterwards (expected {act1 + 4})"]
    return None


def native_trigger_returns_params():
    """trigger_rar hands the parameters back unchanged, NaN entries included"""
    import numpy as np, jax, warnings
    import jax.numpy as jnp
    import equinox as eqx
    from jinns.solver._rar import init_rar, trigger_rar
    from jinns.data._DataGenerators import DataGeneratorODE
    from jinns.loss import LossODE, ODE
    from jinns.parameters import Params

    class Dyn(ODE):
        def equation(self, t, u, params):
            return jnp.sin(7.0 * t) * jnp.ones((1,))

    class U(eqx.Module):
        def __call__(self, t, params):
            return jnp.zeros((1,))
    with warnings.catch_warnings():
        warnings.simplefilter("ignore")
        loss = LossODE(u=U(), dynamic_loss=Dyn(), params=Params(nn_params=None, eq_params={}))
    rp = {"start_iter": 0, "update_every": 1, "sample_size_times": 6, "selected_sample_size_times": 2}
    g = DataGeneratorODE(jax.random.PRNGKey(0), 20, 0.0, 1.0, 2, "uniform", rp, 4)
    g, ft, ff = init_rar(g)
    p_in = Params(nn_params=None, eq_params={"a": jnp.array([1.5, jnp.nan, -jnp.inf])})
    _, p_out, g_out = trigger_rar(0, loss, p_in, g, ft, ff)
    a_in, a_out = np.asarray(p_in.eq_params["a"]), np.asarray(p_out.eq_params["a"])
    if not np.array_equal(a_in, a_out, equal_nan=True):
        return [f"trigger_rar returns parameters {a_out.tolist()} for the parameters {a_in.tolist()} it was given"]
    if int(g_out.rar_iter_nb) != 1:
        return ["scheduled refinement step (iteration 0 = start_iter, period 1, room for a full set) with parameters that contain a NaN: "
                f"the step did not happen ({int((np.asarray(g_out.p_times) != 0).sum())} active times, expected 6): the schedule depends on the parameters"]
    return None


def native_rar_monitor(vals):
    try:
        m = _native_rar_ode(vals)
        if m:
            return m
    except Exception:
        pass
    try:
        m = _native_rar_resume()
        if m:
            return m
    except Exception:
        pass
    try:
        m = _native_rar_two_setups_ranking()
        if m:
            return m
    except Exception:
        pass
    try:
        m = _native_rar_statio_vector()
        if m:
            return m
    except Exception:
        pass
    try:
        return _native_rar_nonstatio(vals)
    except Exception:
        return None


def _native_rar_nonstatio(vals):
    """the real trigger_rar loop on a real non-stationary generator with nt_start != n_start, sel_t != sel_x and a space
    store that fills first; schedule, capacity (both stores), counts and frames are observed"""
    import numpy as np, jax, warnings
    import jax.numpy as jnp
    import equinox as eqx
    from jinns.solver._rar import init_rar, trigger_rar
    from jinns.data._DataGenerators import CubicMeshPDENonStatio
    from jinns.loss import LossPDENonStatio, PDENonStatio
    from jinns.parameters import Params
    from jinns.utils._pinn import PINN

    class Dyn(PDENonStatio):
        def equation(self, t, x, u, params):
            return jnp.sin(9.0 * t) * jnp.cos(5.0 * x[0:1]) + x[1:2]

    class M(eqx.Module):
        w: jax.Array
        def __call__(self, x):
            return jnp.sum(self.w * x)[None]
    u = PINN(mlp=M(jnp.ones(3)), slice_solution=jnp.s_[0:1], eq_type="nonstatio_PDE", input_transform=lambda i, p: i, output_transform=lambda i, o, p: o)
    msgs = []
    for (st_, ev, n0_, nt0_, selt_, selx_, ntot, nttot, St_, Sx_) in [(1, 2, 4, 6, 2, 3, 13, 30, 5, 6), (0, 1, 5, 3, 3, 2, 30, 10, 4, 9), (2, 1, 3, 4, 2, 7, 40, 20, 3, 8),
                                                                      (0, 1, 12, 3, 2, 3, 30, 20, 4, 5),
                                                                      (0, 1, 4, 5, 0, 3, 22, 30, 4, 6), (0, 1, 6, 5, 3, 0, 22, 30, 4, 6)]:
        rp = {"start_iter": st_, "update_every": ev, "sample_size_times": St_, "selected_sample_size_times": selt_,
              "sample_size_omega": Sx_, "selected_sample_size_omega": selx_}
        g = CubicMeshPDENonStatio(key=jax.random.PRNGKey(1), n=ntot, nb=None, nt=nttot, omega_batch_size=2, omega_border_batch_size=None,
                                  temporal_batch_size=2, dim=2, min_pts=(0.0, 0.0), max_pts=(1.0, 1.0), tmin=0.0, tmax=1.0,
                                  rar_parameters=rp, n_start=n0_, nt_start=nt0_)
        with warnings.catch_warnings():
            warnings.simplefilter("ignore")
            loss = LossPDENonStatio(u=u, dynamic_loss=Dyn(), params=Params(nn_params=u.params, eq_params={}))
        params = Params(nn_params=u.params, eq_params={})
        g, ft, ff = init_rar(g)
        steps = 0
        for i in range(st_ + 6 * ev + 2):
            bt_, bx_ = np.asarray(g.times), np.asarray(g.omega)
            at, ax_ = int((np.asarray(g.p_times) != 0).sum()), int((np.asarray(g.p_omega) != 0).sum())
            _, _, g2 = trigger_rar(i, loss, params, g, ft, ff)
            fired = int(g2.rar_iter_nb) > int(g.rar_iter_nb)
            expected = i >= st_ and (i - st_) % ev == 0 and at + selt_ <= nttot and ax_ + selx_ <= ntot
            if fired != expected:
                msgs.append(f"non-stationary, start={st_}, every={ev}: iteration {i}: refinement {'happened' if fired else 'did not happen'} "
                            f"(active time {at}/{nttot}, space {ax_}/{ntot}), expected {'a step' if expected else 'no step'}")
                break
            if fired:
                steps += 1
                at2, ax2 = int((np.asarray(g2.p_times) != 0).sum()), int((np.asarray(g2.p_omega) != 0).sum())
                if (at2, ax2) != (nt0_ + steps * selt_, n0_ + steps * selx_):
                    msgs.append(f"after {steps} step(s): active time/space = {at2}/{ax2}, expected {nt0_ + steps * selt_}/{n0_ + steps * selx_}")
                    break
                if not np.array_equal(np.asarray(g2.times)[:at], bt_[:at]) or not np.array_equal(np.asarray(g2.omega)[:ax_], bx_[:ax_]):
                    msgs.append(f"iteration {i} (step {steps}): a point that was active before the step was overwritten")
                    break
                nt_new = np.asarray(g2.times)[at:at2]
                nx_new = np.asarray(g2.omega)[ax_:ax2]
                if np.any(nt_new == bt_[at:at2]) or np.any(np.all(nx_new == bx_[ax_:ax2], axis=1)):
                    msgs.append(f"iteration {i} (step {steps}): the newly activated slots still hold their old pre-allocated content")
                    break
                if np.any(np.asarray(g2.omega)[ax2:] != bx_[ax2:]):
                    msgs.append(f"iteration {i} (step {steps}): rows beyond the activated slice were written")
                    break
            g = g2
        if msgs:
            break
    return msgs or None


def _native_rar_ode(vals):
    """run the real trigger_rar loop on the real generators and compare with the schedule / capacity / frame clauses"""
    import numpy as np
    import jax
    import jax.numpy as jnp
    import equinox as eqx
    from jinns.solver._rar import init_rar, trigger_rar
    from jinns.data._DataGenerators import DataGeneratorODE
    from jinns.loss import LossODE, ODE
    from jinns.parameters import Params

    def geti(k, d):
        try:
            v = int(vals.get(k, d))
            return v if 0 <= v <= 12 else d
        except Exception:
            return d
    msgs = []
    for (st_, ev, nts, sel, ntot) in [(geti("start", 2), max(1, geti("every", 2)), max(1, geti("nt_start", 3)), max(1, geti("sel_t", 2)), 14),
                                      (0, 1, 3, 2, 9), (2, 3, 4, 2, 12)]:
        class Dyn(ODE):
            def equation(self, t, u, params):
                return jnp.sin(7.0 * t) * jnp.ones((1,))
        class U(eqx.Module):
            def __call__(self, t, params):
                return jnp.zeros((1,))
        rp = {"start_iter": st_, "update_every": ev, "sample_size_times": 5, "selected_sample_size_times": sel}
        g = DataGeneratorODE(jax.random.PRNGKey(0), ntot, 0.0, 1.0, 2, "uniform", rp, nts)
        import warnings
        with warnings.catch_warnings():
            warnings.simplefilter("ignore")
            loss = LossODE(u=U(), dynamic_loss=Dyn(), params=Params(nn_params=None, eq_params={}))
        g, ft, ff = init_rar(g)
        steps = 0
        for i in range(st_ + 3 * ev + 2):
            before_t, active = np.asarray(g.times), int((np.asarray(g.p_times) != 0).sum())
            _, _, g2 = trigger_rar(i, loss, Params(nn_params=None, eq_params={}), g, ft, ff)
            fired = int(g2.rar_iter_nb) > int(g.rar_iter_nb)
            expected = i >= st_ and (i - st_) % ev == 0 and active + sel <= ntot
            if fired != expected:
                msgs.append(f"start={st_}, every={ev}: iteration {i}: refinement {'happened' if fired else 'did not happen'}, expected {'a step' if expected else 'no step'}")
                break
            if fired:
                steps += 1
                act2 = int((np.asarray(g2.p_times) != 0).sum())
                if act2 != nts + steps * sel:
                    msgs.append(f"start={st_}, every={ev}: after {steps} step(s) {act2} points have non-zero probability, expected {nts + steps * sel}")
                    break
                if not np.array_equal(np.asarray(g2.times)[:active], before_t[:active]):
                    msgs.append(f"iteration {i}: a point that was active before the step was overwritten")
                    break
            g = g2
        if msgs:
            break
    return msgs or None


def obligations(tier, only=None):
    obs = [ob_constructor()]
    for kind in ("ODE", "statio", "nonstatio"):
        obs += [ob_init_rar(kind), ob_proceed(kind), ob_step_false(kind), ob_trigger(kind)]
        for cl in C16_CLAUSES:
            obs.append(ob_step_true(kind, cl))
    obs += [ob_proceed("nonstatio", zero="t"), ob_proceed("nonstatio", zero="x")]
    for l in SCHED_LEMMAS:
        obs.append(ob_sched_lemma(l))
    obs.append(ob_no_rar())
    obs.append(ob_step_true_1d("statio"))
    obs.append(ob_step_true_1d("nonstatio"))
    # "afterwards refinement steps happen exactly at ...": solve calls the refinement trigger at every iteration, with or
    # without a validation module (the step contract of solve with refinement replaced by its contract)
    from contracts import c07, c19
    for i_ in range(3):
        for o in (c07.step(c07.rar_config(), 3, i_), c19.val_step(c07.rar_config(), 3, i_, 2)):
            o.name = o.name.replace("C07/", "C16/solve/").replace("C19/", "C16/solve/")
            obs.append(o)
    return obs


def ob_step_true_system(kind, cols=None):
    """the same step with a system loss (sum over the equations of the system): it must run and keep the bookkeeping / frame clauses.
    cols: every equation returns a residual vector with `cols` components (squared residual = sum of squared components)"""
    name = f"C17/rar_step_true/ensures.step_with_a_system_loss[{kind}{'' if cols is None else ',residual_components=' + str(cols)}]"
    def run(seed):
        t0 = time.time()
        try:
            ex, data, d2, pc, mt, mx = run_step_true(kind, system=True, cols=cols)
        except pyvc.PyRaise as e:
            nat = native_system_statio() if kind == "statio" else (_safe_native(native_system_nonstatio_ranking) if kind == "nonstatio" else None)
            return dict(status="violated", failure="raises", backend="pyvc",
                        detail=f"rar_step_true raises {e.exc_name} with a system loss on a {kind} generator: {e.msg}",
                        replay=dict(native_disagrees=bool(nat), native=nat or "not replayed natively",
                                    solver_output=f"symbolic execution reached an unbound local: {e.msg}", expected="a refinement step"))
        T, X = kind in ("ODE", "nonstatio"), kind in ("statio", "nonstatio")
        pre = BASE_PRE.of(kind) + list(pc) + [k_ >= 0] + ([mt + selt <= nt] if T else []) + ([mx + selx <= n] if X else [])
        goals = [("steps_incremented", zint(d2.fields["rar_iter_nb"]) == J + 1)]
        # ranking: the squared residual of a candidate for a system is the sum over the equations of the squared residuals
        res = getattr(ex, "residuals", [])
        t = z3.Int("t")
        ax = []
        if kind in ("ODE", "statio"):
            srt = getattr(ex, "sorts", [])
            if len(srt) == 1 and len(res) == 2:
                S_ = St if kind == "ODE" else Sx
                if cols is None:
                    sq = sum((rf(t) * rf(t) for rf, _ in res), z3.RealVal(0))
                else:
                    sq = sum((rf(t, z3.IntVal(c2)) * rf(t, z3.IntVal(c2)) for rf, _ in res for c2 in range(cols)), z3.RealVal(0))
                    ax += pyvc.norm_axioms(ex, [t])
                goals.append(("ranked_by_sum_over_equations_of_squared_residuals", z3.Implies(
                    z3.And(t >= 0, t < S_), zreal(srt[0][1].elem(t)) == sq)))
            else:
                goals.append(("one_ranking_over_all_equations", z3.BoolVal(False)))
        else:
            tk = getattr(ex, "topks", [])
            if len(tk) == 1 and len(res) == 2:
                goals.append(("ranked_by_sum_over_equations_of_squared_residuals", z3.Implies(
                    z3.And(t >= 0, t < St * Sx), zreal(tk[0][1].elem(t)) == sum((rf(t) * rf(t) for rf, _ in res), z3.RealVal(0)))))
            else:
                goals.append(("one_ranking_over_all_equations", z3.BoolVal(False)))
        if T:
            goals += [("time_active", z3.Implies(k_ < nt, (zreal(d2.fields["p_times"].elem(k_)) != 0) == (k_ < mt + selt))),
                      ("time_kept", z3.Implies(k_ < mt, d2.fields["times"].elem(k_) == data.fields["times"].elem(k_)))]
        if X:
            goals += [("space_active", z3.Implies(k_ < n, (zreal(d2.fields["p_omega"].elem(k_)) != 0) == (k_ < mx + selx))),
                      ("space_kept", z3.Implies(k_ < mx, d2.fields["omega"].elem(k_, 0) == data.fields["omega"].elem(k_, 0)))]
        out = result(name, goals, pre, ex, t0, extra_axioms=ax)
        if out.get("status") == "violated" and kind == "nonstatio" and not (out.get("replay") or {}).get("native_disagrees"):
            nat = _safe_native(native_system_nonstatio_ranking)
            if nat:
                out["replay"].update(native_disagrees=True, native=nat)
        return out
    return FnObligation(name, run, [RAR + "_rar_step_init.rar_step_true"])


def _safe_native(f):
    try:
        return f()
    except Exception as e:
        import traceback
        tb = traceback.extract_tb(e.__traceback__)
        if any(fr.filename.startswith(_REPO + "/") for fr in tb):
            return [f"the real refinement step raises {type(e).__name__}: {str(e)[:200]}"]
        return None


def native_system_nonstatio_ranking():
    """non-stationary refinement with a two-equation system whose residuals nearly cancel: the activated time / space
    slots must come from the (time, space) pairs with the largest sum over the equations of the squared residuals"""
    import numpy as np, jax, warnings
    import jax.numpy as jnp
    import equinox as eqx
    from jinns.solver._rar import init_rar, trigger_rar
    from jinns.data._DataGenerators import CubicMeshPDENonStatio
    from jinns.loss import SystemLossPDE, PDENonStatio, LossWeightsPDEDict
    from jinns.parameters import ParamsDict
    from jinns.utils._pinn import PINN

    def f_(t, x):
        return jnp.sin(5.0 * t[0]) * (0.5 + x[0]) + 2.0 * x[1]

    class E1(PDENonStatio):
        def equation(self, t, x, u_dict, params_dict):
            return jnp.reshape(f_(t, x), (1,))

    class E2(PDENonStatio):
        def equation(self, t, x, u_dict, params_dict):
            return jnp.reshape(-f_(t, x) + 0.3 * jnp.cos(7.0 * x[0] + t[0]), (1,))

    class M(eqx.Module):
        w: jax.Array
        def __call__(self, x):
            return jnp.sum(self.w * x)[None]
    u = PINN(mlp=M(jnp.ones(3)), slice_solution=jnp.s_[0:1], eq_type="nonstatio_PDE", input_transform=lambda i, p: i, output_transform=lambda i, o, p: o)
    pd = ParamsDict(nn_params={"u": u.params}, eq_params={})
    with warnings.catch_warnings():
        warnings.simplefilter("ignore")
        loss = SystemLossPDE(u_dict={"u": u}, dynamic_loss_dict={"e1": E1(), "e2": E2()}, loss_weights=LossWeightsPDEDict(), params_dict=pd)
    St_, Sx_, selt_, selx_ = 5, 6, 2, 2
    rp = {"start_iter": 0, "update_every": 1, "sample_size_times": St_, "selected_sample_size_times": selt_,
          "sample_size_omega": Sx_, "selected_sample_size_omega": selx_}
    g = CubicMeshPDENonStatio(key=jax.random.PRNGKey(7), n=20, nb=None, nt=20, omega_batch_size=2, omega_border_batch_size=None,
                              temporal_batch_size=2, dim=2, min_pts=(0.0, 0.0), max_pts=(1.0, 1.0), tmin=0.0, tmax=1.0,
                              rar_parameters=rp, n_start=4, nt_start=4)
    g, ft, ff = init_rar(g)
    for step in range(2):
        nk, sk = jax.random.split(g.key)
        ts = np.asarray(g.sample_in_time_domain(sk, St_)).reshape(-1)
        nk, *sks = jax.random.split(nk, 3)
        xs = np.asarray(g.sample_in_omega_domain(sks, Sx_))
        sq = np.array([[float(E1().equation(jnp.array([t_]), jnp.asarray(x_), None, None)[0]) ** 2 +
                        float(E2().equation(jnp.array([t_]), jnp.asarray(x_), None, None)[0]) ** 2 for x_ in xs] for t_ in ts])
        order = np.argsort(-sq.reshape(-1))[:max(selt_, selx_)]
        exp_t = ts[(order // Sx_)[:selt_]]
        exp_x = xs[(order % Sx_)[:selx_]]
        mt, mx = 4 + step * selt_, 4 + step * selx_
        _, _, g2 = trigger_rar(step, loss, pd, g, ft, ff)
        new_t, new_x = np.asarray(g2.times)[mt:mt + selt_], np.asarray(g2.omega)[mx:mx + selx_]
        if not all(np.any(np.isclose(v, ts)) for v in new_t):
            return None          # candidates could not be re-drawn: no statement
        if not (np.allclose(np.sort(new_t), np.sort(exp_t)) and np.allclose(np.sort(new_x, axis=0), np.sort(exp_x, axis=0))):
            return [f"non-stationary step {step} with a 2-equation system: activated times {np.round(new_t, 4).tolist()} / points "
                    f"{np.round(new_x, 4).tolist()}; the pairs with the largest sum of squared residuals give times "
                    f"{np.round(exp_t, 4).tolist()} / points {np.round(exp_x, 4).tolist()}"]
        g = g2
    return None


def native_system_statio():
    import jax, warnings
    import jax.numpy as jnp
    import equinox as eqx
    from jinns.solver._rar import init_rar, trigger_rar
    from jinns.data._DataGenerators import CubicMeshPDEStatio
    from jinns.loss import SystemLossPDE, PDEStatio, LossWeightsPDEDict
    from jinns.parameters import ParamsDict
    from jinns.utils._pinn import PINN

    class Dyn(PDEStatio):
        def equation(self, x, u_dict, params_dict):
            return jnp.sin(5.0 * x[0:1]) + u_dict["u"](x, params_dict.extract_params("u"))

    class M(eqx.Module):
        w: jax.Array
        def __call__(self, x):
            return jnp.sum(self.w * x)[None]
    u = PINN(mlp=M(jnp.ones(2)), slice_solution=jnp.s_[0:1], eq_type="statio_PDE", input_transform=lambda i, p: i, output_transform=lambda i, o, p: o)
    pd = ParamsDict(nn_params={"u": u.params}, eq_params={})
    with warnings.catch_warnings():
        warnings.simplefilter("ignore")
        loss = SystemLossPDE(u_dict={"u": u}, dynamic_loss_dict={"e": Dyn()}, loss_weights=LossWeightsPDEDict(), params_dict=pd)
    rp = {"start_iter": 0, "update_every": 1, "sample_size_omega": 4, "selected_sample_size_omega": 2}
    g = CubicMeshPDEStatio(key=jax.random.PRNGKey(0), n=10, nb=None, omega_batch_size=2, omega_border_batch_size=None, dim=2,
                           min_pts=(0.0, 0.0), max_pts=(1.0, 1.0), rar_parameters=rp, n_start=4)
    g, ft, ff = init_rar(g)
    try:
        trigger_rar(0, loss, pd, g, ft, ff)
    except Exception as e:
        return [f"trigger_rar on a stationary generator with a SystemLossPDE raises {type(e).__name__}: {str(e)[:160]}"]
    return None


def ob_reshuffle_keeps_active_set():
    """C17: a reshuffle drawn with the store's probabilities keeps the active prefix a permutation of itself
    (lemma over the assumed contract of jax.random.choice: rows with p == 0 come after every row with p > 0;
    that the reshuffle is drawn with the store's p is the C09 obligation `reshuffle_uses_store_probabilities`)"""
    name = "C17/lemma/reshuffle_keeps_the_active_prefix"
    def run(seed):
        t0 = time.time()
        pi = z3.Function("pi", z3.IntSort(), z3.IntSort())
        inv = z3.Function("pi_inv", z3.IntSort(), z3.IntSort())
        m, a, bq = z3.Ints("m a bq")
        pz = z3.Function("p", z3.IntSort(), z3.RealSort())
        size = n
        # assumed contract of choice(key, store, (n,), replace=False, p), in counting form: the rows with p > 0 occupy
        # exactly the first cnt positions, cnt = number of rows with p > 0; counting lemma: cnt = m under ACTIVE
        cnt = z3.Int("cnt")
        contract = [z3.ForAll([a], z3.Implies(z3.And(a >= 0, a < size), z3.And(pi(a) >= 0, pi(a) < size))),
                    z3.ForAll([a], z3.Implies(z3.And(a >= 0, a < size), (a < cnt) == (pz(pi(a)) != 0)))]
        active = [z3.ForAll([a], z3.Implies(z3.And(a >= 0, a < size), (pz(a) != 0) == (a < m))), m >= 0, m <= size, cnt == m]
        # goal: position k of the new store is active  <=>  it holds a row that was active
        goal = z3.Implies(z3.And(k_ >= 0, k_ < size), (k_ < m) == (pi(k_) < m))
        st, model = prove(goal, contract + active, timeout_ms=60000)
        if st == "unknown":
            return dict(status="undecided", backend="z3", detail="z3 unknown (quantified pigeonhole argument)")
        if st == "sat":
            return dict(status="violated", failure="lemma", detail=str(model)[:300], replay=dict(native_disagrees=False, solver_output=str(model)[:500]))
        return dict(status="discharged", backend="z3", solver_s=time.time() - t0, sample=str(goal))
    return FnObligation(name, run, [DG + "_reset_batch_idx_and_permute"])


def c17_obligations(tier):
    obs = []
    for kind in ("ODE", "statio", "nonstatio"):
        for cl in C17_CLAUSES:
            obs.append(ob_step_true(kind, cl))
        if kind != "nonstatio":
            # residual vectors (what jinns' equations return: shape (k,) per point): ranking by the sum of squared components
            for cols in ((1, 2) if tier == "quick" else (1, 2, 3, 4)):
                obs.append(ob_step_true(kind, "adds_highest_residual_candidates", cols=cols))
            obs.append(ob_step_true(kind, "active_points_kept", cols=2))
    obs.append(ob_reshuffle_keeps_active_set())
    obs.append(ob_step_true_system("statio", cols=2))       # equations returning residual vectors (what jinns' equations do)
    for kind in ("ODE", "statio", "nonstatio"):
        obs.append(ob_step_true_system(kind))
        # the step clauses above assume room for a full selected set in every store the step writes: that precondition is
        # what _proceed_to_rar / trigger_rar establish (their C16 contracts, needed here and therefore re-checked here)
        for o in (ob_proceed(kind), ob_trigger(kind)):
            o.name = o.name.replace("C16/", "C17/requires.capacity_for_a_full_set/")
            obs.append(o)
        # "active points remain active" across trainings: starting a new run (init_rar) keeps the step counter that the
        # write offsets n_start + J * selected are computed from
        o = ob_init_rar(kind)
        o.name = o.name.replace("C16/", "C17/requires.write_offset_state_kept_by/")
        obs.append(o)
    # "of the current network": solve hands the refinement step the parameters it has just updated (the step contract of
    # solve with refinement replaced by its contract, with and without a validation module)
    from contracts import c07, c19
    for i in range(3):
        for o in (c07.step(c07.rar_config(), 3, i), c19.val_step(c07.rar_config(), 3, i, 2)):
            o.name = o.name.replace("C07/", "C17/solve/").replace("C19/", "C17/solve/")
            obs.append(o)
    # the reshuffle of a RAR store is drawn with the store's probability vector (C09 step contract, restated)
    from contracts import c09
    for which in ("DataGeneratorODE.temporal_batch", "CubicMeshPDENonStatio.temporal_batch", "CubicMeshPDEStatio.inside_batch[dim=1]"):
        o = c09.consumer_ob(which, True, "reshuffle_uses_store_probabilities")
        o.name = o.name.replace("C09/", "C17/")
        obs.append(o)
    return obs
