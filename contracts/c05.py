"""
C05 — initial-condition, normalisation and observation terms match their definitions.
Under contract: initial_condition_apply, normalization_loss_apply, observations_loss_apply (PINN branches),
the initial-condition block of LossODE.evaluate, _update_eq_params_dict, _get_vmap_in_axes_params,
_check_user_func_return, and the wiring through the three evaluate methods.
"""
from contracts.common import *
from contracts.lossutil import mean
from jinns.loss._loss_utils import initial_condition_apply, normalization_loss_apply, observations_loss_apply
from jinns.loss import (LossODE, LossPDEStatio, LossPDENonStatio, LossWeightsODE, LossWeightsPDEStatio,
                        LossWeightsPDENonStatio)
from jinns.data._Batchs import ODEBatch, PDEStatioBatch, PDENonStatioBatch

META = dict(
    trusted_base=TRUSTED_B,
    bounded_in={"batch / sample / time counts": "1..3", "network outputs": "1..2", "spatial dimension": "1..2",
                "observed equation parameters": "0..1 keys"},
    unbounded_in=["network (uninterpreted)", "initial state / function", "samples, volumes", "observation tables", "weights"],
    assumptions=["the normalisation term is stated for scalar-valued u (one solution component)"],
)
LU = "jinns.loss._loss_utils:"


def sum_a_transform(inp, params):
    """network input transform that reads the equation parameter 'a' (sum of whatever it holds)"""
    return jnp.concatenate([inp, jnp.reshape(jnp.sum(params.eq_params["a"]), (1,))])


def ic_ode(m, with_param_batch, B=2, u0_int=False):
    def build():
        net = Net("Ni", "ODE", 1 + (1 if with_param_batch else 0), m,
                  input_transform=sum_a_transform if with_param_batch else None)
        def fn(th, t0, u0, w, a, acol):
            params = net.params(th, {"a": a})
            loss = mk_loss(LossODE, u=net.u, dynamic_loss=None, params=params, initial_condition=(t0, u0),
                           loss_weights=LossWeightsODE(initial_condition=w))
            batch = ODEBatch(temporal_batch=jnp.zeros((B,)), param_batch_dict={"a": acol} if with_param_batch else None)
            return loss.evaluate(params, batch)[1]["initial_condition"]
        def spec(th, t0, u0, w, a, acol, wrong=False):
            n = net.jet(th)
            rows = range(B) if with_param_batch else [None]
            per = []
            for i in rows:
                pt = [t0[()]] + ([acol[i, 0]] if with_param_batch else [])
                per.append(w[()] * sum(((n(j, pt) - u0[j]) ** 2 for j in range(m)), P.ZERO))
            v = mean(per)
            return arr(lambda _: v * 2 if wrong else v, ())
        return dict(fn=fn, spec=spec, canary=lambda *x: spec(*x, wrong=True),
                    inputs=[Inp("th", (1,)), Inp("t0", ()), Inp("u0", (m,), "int" if u0_int else "real"), Inp("w", ()), Inp("a", ()), Inp("acol", (B, 1))])
    return EqObligation(f"C05/LossODE.evaluate/initial_condition[m={m},param_batch={int(with_param_batch)}{',u0=integer-typed' if u0_int else ''}]", build,
                        ["jinns.loss._LossODE:LossODE.evaluate"] +
                        (["jinns.parameters._params:_update_eq_params_dict", "jinns.parameters._params:_get_vmap_in_axes_params"] if with_param_batch else []))


def ic_pde(d, B, m, wkind, fshape, via):
    def build():
        net = Net("Np", "nonstatio_PDE", 1 + d, m)
        u0 = OpaqueFn("u0", [(d,)], fshape)
        def fn(th, xs, w):
            params = net.params(th)
            if via == "apply":
                return initial_condition_apply(net.u, xs, params, (0, None), lambda x: u0(x), B, w)
            loss = mk_loss(LossPDENonStatio, u=net.u, dynamic_loss=None, params=params, initial_condition_fun=lambda x: u0(x),
                                    loss_weights=LossWeightsPDENonStatio(initial_condition=w))
            batch = PDENonStatioBatch(times_x_inside_batch=jnp.concatenate([jnp.ones((B, 1)) * 0.7, xs], axis=1),
                                      times_x_border_batch=None)
            return loss.evaluate(params, batch)[1]["initial_condition"]
        def spec(th, xs, w, wrong=False):
            n = net.jet(th)
            per = []
            for i in range(B):
                x = [xs[i, l] for l in range(d)]
                pt = [c(0 if not wrong else 1)] + x
                per.append(sum(((w[j] if wkind == "vec" else w[()]) *
                                (P.app("u0", j if fshape == (m,) and m > 1 else 0, (), x) - n(j, pt)) ** 2
                                for j in range(m)), P.ZERO))
            return arr(lambda _: mean(per), ())
        return dict(fn=fn, spec=spec, canary=lambda *x: spec(*x, wrong=True),
                    inputs=[Inp("th", (1,)), Inp("xs", (B, d)), Inp("w", (m,) if wkind == "vec" else ())])
    return EqObligation(f"C05/initial_condition_apply/ensures[d={d},B={B},m={m},w={wkind},u0={fshape},via={via}]", build,
                        [LU + "initial_condition_apply"] + (["jinns.loss._LossPDE:LossPDENonStatio.evaluate"] if via != "apply" else []))


def norm(kind, d, S, Bt, m, via, all_outputs=False):
    """all_outputs: the solution is the whole m-component output (one Monte-Carlo integral over samples and components)"""
    time = kind == "nonstatio"
    mo = m if all_outputs else 1
    def build():
        ss = jnp.s_[0:mo]
        net = Net("Nn", "nonstatio_PDE" if time else "statio_PDE", d + (1 if time else 0), m, slice_solution=ss)
        def fn(th, ns, ts, L, w):
            params = net.params(th)
            if via == "apply":
                batches = (ts, ns) if time else (ns,)
                axes = (0, 0, None) if time else (0, None)
                return normalization_loss_apply(net.u, batches, params, axes, L, w)
            if time:
                loss = mk_loss(LossPDENonStatio, u=net.u, dynamic_loss=None, params=params, norm_samples=ns, norm_int_length=L,
                                        loss_weights=LossWeightsPDENonStatio(norm_loss=w))
                batch = PDENonStatioBatch(times_x_inside_batch=jnp.concatenate([ts, jnp.zeros((Bt, d))], axis=1),
                                          times_x_border_batch=None)
            else:
                loss = mk_loss(LossPDEStatio, u=net.u, dynamic_loss=None, params=params, norm_samples=ns, norm_int_length=L,
                                     loss_weights=LossWeightsPDEStatio(norm_loss=w))
                batch = PDEStatioBatch(inside_batch=jnp.zeros((1, d)), border_batch=None)
            return loss.evaluate(params, batch)[1]["norm_loss"]
        def spec(th, ns, ts, L, w, wrong=False):
            n = net.jet(th)
            def integral(tpt):
                vals = [n(q, tpt + [ns[s, l] for l in range(d)]) for s in range(S) for q in range(mo)]
                return L[()] * mean(vals)
            if time:
                v = mean([(integral([ts[i, 0]]) - 1) ** 2 for i in range(Bt)])
            else:
                v = (integral([]) - 1) ** 2
            if wrong:
                v = v + 1
            return arr(lambda _: w[()] * v, ())
        return dict(fn=fn, spec=spec, canary=lambda *x: spec(*x, wrong=True),
                    inputs=[Inp("th", (1,)), Inp("ns", (S, d)), Inp("ts", (Bt, 1)), Inp("L", (), "pos"), Inp("w", ())])
    return EqObligation(f"C05/normalization_loss_apply/ensures[{kind},d={d},S={S},Bt={Bt},m={m},via={via}{',solution=all_outputs' if all_outputs else ''}]", build,
                        [LU + "normalization_loss_apply"] + (["jinns.loss._LossPDE:LossPDEStatio.evaluate"] if via != "apply" else []))


def observations(kind, B, m, ssl, osl, wkind, obs_param, valshape="2d"):
    """ssl = slice_solution of the network, osl = obs_slice of the loss; obs_param: the table carries parameter 'a'"""
    din = {"ODE": 1, "statio": 2, "nonstatio": 2}[kind]
    eqt = {"ODE": "ODE", "statio": "statio_PDE", "nonstatio": "nonstatio_PDE"}[kind]
    comps = list(range(m))[ssl][osl]
    k = len(comps)
    def build():
        net = Net("No", eqt, din + 1, m, slice_solution=ssl, input_transform=sum_a_transform)
        def fn(th, a, pin, val, acol, w):
            params = net.params(th, {"a": a, "b": a * 2})
            obs = {"pinn_in": pin, "val": val if valshape == "2d" else val[:, 0],
                   "eq_params": {"a": acol} if obs_param else {}}
            if kind == "ODE":
                loss = mk_loss(LossODE, u=net.u, dynamic_loss=None, params=params, initial_condition=None, obs_slice=osl,
                               loss_weights=LossWeightsODE(observations=w))
                batch = ODEBatch(temporal_batch=jnp.zeros((B,)), obs_batch_dict=obs)
            elif kind == "statio":
                loss = mk_loss(LossPDEStatio, u=net.u, dynamic_loss=None, params=params, obs_slice=osl,
                                     loss_weights=LossWeightsPDEStatio(observations=w))
                batch = PDEStatioBatch(inside_batch=jnp.zeros((B, din)), border_batch=None, obs_batch_dict=obs)
            else:
                loss = mk_loss(LossPDENonStatio, u=net.u, dynamic_loss=None, params=params, obs_slice=osl,
                                        loss_weights=LossWeightsPDENonStatio(observations=w))
                batch = PDENonStatioBatch(times_x_inside_batch=jnp.zeros((B, din)), times_x_border_batch=None,
                                          obs_batch_dict=obs)
            return loss.evaluate(params, batch)[1]["observations"]
        def spec(th, a, pin, val, acol, w, wrong=False):
            n = net.jet(th)
            per = []
            for i in range(B):
                av = acol[i, 0] if obs_param else a[()]
                if wrong:
                    av = acol[(i + 1) % B, 0] if (obs_param and B > 1) else a[()] + 1
                pt = [pin[i, l] for l in range(din)] + [av]
                per.append(sum(((w[q] if wkind == "vec" else w[()]) * (n(cj, pt) - val[i, q]) ** 2
                                for q, cj in enumerate(comps)), P.ZERO))
            return arr(lambda _: mean(per), ())
        return dict(fn=fn, spec=spec, canary=lambda *x: spec(*x, wrong=True),
                    inputs=[Inp("th", (1,)), Inp("a", ()), Inp("pin", (B, din)), Inp("val", (B, k)),
                            Inp("acol", (B, 1)), Inp("w", (k,) if wkind == "vec" else ())])
    cls = {"ODE": "jinns.loss._LossODE:LossODE.evaluate", "statio": "jinns.loss._LossPDE:LossPDEStatio.evaluate",
           "nonstatio": "jinns.loss._LossPDE:LossPDENonStatio.evaluate"}[kind]
    return EqObligation(f"C05/observations_loss_apply/ensures[{kind},B={B},m={m},slice_solution={ssl.start}:{ssl.stop},"
                        f"obs_slice={osl.start}:{osl.stop},w={wkind},observed_param={int(obs_param)},val={valshape}]", build,
                        [LU + "observations_loss_apply", cls, "jinns.parameters._params:_update_eq_params_dict",
                         "jinns.parameters._params:_get_vmap_in_axes_params", "jinns.utils._utils:_check_user_func_return"])


def obligations(tier):
    obs = []
    for m in (1, 2):
        obs.append(ic_ode(m, False))
    obs.append(ic_ode(1, True))
    obs.append(ic_ode(2, False, u0_int=True))      # integer-typed target values do not change where the network is evaluated
    Bs = (1, 2) if tier == "quick" else (1, 2, 3)
    for d in (1, 2):
        for B in Bs:
            obs.append(ic_pde(d, B, 1, "scalar", (1,), "apply"))
            obs.append(ic_pde(d, B, 2, "vec", (2,), "apply"))
        obs.append(ic_pde(d, 2, 1, "scalar", (), "apply"))
        obs.append(ic_pde(d, 2, 2, "vec", (2,), "evaluate"))
    for kind in ("statio", "nonstatio"):
        for d in (1, 2):
            for S in Bs + ((3,) if tier == "quick" else ()):
                for Bt in ((1,) if kind == "statio" else Bs):
                    obs.append(norm(kind, d, S, Bt, 1, "apply"))
            obs.append(norm(kind, d, 2, 2, 1, "evaluate"))
            obs.append(norm(kind, d, 2, 2, 2, "apply", all_outputs=True))
    full = slice(0, None)
    for kind in ("ODE", "statio", "nonstatio"):
        for B in Bs:
            obs.append(observations(kind, B, 1, slice(0, 1), full, "scalar", False))
            obs.append(observations(kind, B, 1, slice(0, 1), full, "scalar", True))
        obs.append(observations(kind, 2, 3, slice(0, 2), full, "vec", False))
        obs.append(observations(kind, 2, 3, slice(1, 3), slice(1, 2), "scalar", False))
        obs.append(observations(kind, 2, 2, slice(0, 2), slice(0, 1), "vec", True))
        obs.append(observations(kind, 2, 1, slice(0, 1), full, "scalar", False, valshape="1d"))
    # separable networks: the same terms over the grid (the C11 contract, reported under C05)
    from contracts import c11
    extra = [c11.ic_ob(1, 1, 2, 1), c11.ic_ob(2, 1, 2, 1), c11.ic_ob(1, 2, 2, 2), c11.ic_ob(2, 2, 1, 2)]
    for time in (False, True):
        for dx in (1, 2):
            extra.append(c11.norm_ob(time, dx, 1, 2, 2))
    extra.append(c11.norm_ob(True, 1, 1, 4, 2))
    if tier == "thorough":
        extra.append(c11.norm_ob(True, 2, 1, 4, 2))      # the code requires the sample count to be a multiple of the time count
    for o in extra:
        o.name = o.name.replace("C11/", "C05/").replace("equals_pointwise_over_grid", "ensures.grid")
        obs.append(o)
    # per-sample parameter rows reach the initial-condition / observation terms (row i with row i), alone and together
    # with observed parameters: the C12 contract of the three evaluate methods, reported under C05
    from contracts import c12
    for kind in ("ODE", "statio", "nonstatio"):
        for o in (c12.batched(kind, ("a",), 2), c12.observed_and_batched(kind, 2), c12.observed_and_batched(kind, 2, same_key=True)):
            o.name = o.name.replace("C12/", "C05/")
            obs.append(o)
    # the same terms inside a system loss: sum over the unknowns of the single-network term with that unknown's weight
    # (applied once) — the C13 per-unknown contracts, reported under C05
    from contracts import c13
    for o in (c13.per_unknown_config_ode(), c13.per_unknown_config("nonstatio")):
        o.name = o.name.replace("C13/", "C05/system/")
        obs.append(o)
    return obs
