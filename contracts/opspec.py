"""
Contracts of the C01 operators *as functions* (used when a caller is verified modularly:
the callee's body is replaced by its postcondition, written independently with nested jax.grad).
"""
import jax
import jax.numpy as jnp


def _field(t, u, params, j):
    if t is None:
        return lambda x: u(x, params)[j]
    return lambda x: u(t, x, params)[j]


def laplacian_c(t, x, u, params):
    g = _field(t, u, params, 0)
    return sum(jax.grad(lambda y, i=i: jax.grad(g)(y)[i])(x)[i] for i in range(x.shape[0]))


def div_c(t, x, u, params):
    return sum(jax.grad(_field(t, u, params, i))(x)[i] for i in range(x.shape[0]))


def vectorial_laplacian_c(t, x, u, params, u_vec_ndim=None):
    m = x.shape[0] if u_vec_ndim is None else u_vec_ndim
    out = []
    for j in range(m):
        g = _field(t, u, params, j)
        out.append(sum(jax.grad(lambda y, i=i: jax.grad(g)(y)[i])(x)[i] for i in range(x.shape[0])))
    return jnp.stack(out)


def u_dot_nabla_times_u_c(t, x, u, params):
    if x.shape[0] != 2:
        raise NotImplementedError("x.ndim must be 2")
    u0, u1 = _field(t, u, params, 0), _field(t, u, params, 1)
    out = []
    for g in (u0, u1):
        dg = jax.grad(g)(x)
        out.append(u0(x) * dg[0] + u1(x) * dg[1])
    return jnp.stack(out)


class patched:
    """with patched(module, name=fn, ...): temporarily replace callees in a module namespace"""

    def __init__(self, module, **repl):
        self.module, self.repl, self.old = module, repl, {}

    def __enter__(self):
        for k, v in self.repl.items():
            self.old[k] = getattr(self.module, k)
            setattr(self.module, k, v)

    def __exit__(self, *a):
        for k, v in self.old.items():
            setattr(self.module, k, v)


def with_patches(module, fn, **repl):
    def wrapped(*a, **k):
        with patched(module, **repl):
            return fn(*a, **k)
    return wrapped
