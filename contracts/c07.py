"""
C07 — solve() is observationally the textbook mini-batch training loop.
Under contract: solve (initial carry and returned tuple), _one_iteration, _gradient_step, _store_loss_and_params,
the jitted get_batch of _get_get_batch, break_fun.  The generator, the parameter / observation generators, the loss
and the optimiser are uninterpreted (and additionally the real optax.sgd); `_one_iteration` and `break_fun` are the
real closures, captured by replacing jax.lax.while_loop with a recorder while tracing solve.
Four contracts (init / step / guard / return) + the iteration rule give the property; the reference loop is defined
with solve's documented warm-up draw (one get_batch before the loop, used to size the histories).
"""
from contracts.common import *
from vf.paths import R
from contracts.solve_util import *
from jinns.utils._containers import (DataGeneratorContainer, OptimizationContainer, OptimizationExtraContainer,
                                     LossContainer, StoredObjectContainer)
import optax
import time

META = dict(
    trusted_base=TRUSTED_B + ["iteration rule: init establishes the state, every step maps state to the reference loop's next "
                              "state, the guard is the reference loop's guard => by induction the final carry is the reference "
                              "loop's (standard Hoare while rule, not re-proved)",
                              "optax.apply_updates(p, u) = p + u is executed by the tracer (real optax code)"],
    bounded_in={"n_iter (history length)": "1,2,3,5 (thorough) / 3 (quick); the iteration index i takes every value in [0, n_iter)",
                "network parameter vector": "length 2", "batch size": "2", "loss terms": "2"},
    unbounded_in=["loss (uninterpreted, differentiable)", "optimiser (uninterpreted init/update; plus real optax.sgd)",
                  "generators (uninterpreted state transformers)", "parameters, optimiser state, histories, generator states"],
    assumptions=["adam / scheduled optimisers are covered by the uninterpreted optimiser (their internals are optax's)"],
)
SM = "jinns.solver._solve:"
P_ = 2


def _tracked(mode):
    if mode == "none":
        return None
    if mode == "a":
        return Params(nn_params=None, eq_params={"a": True})
    return Params(nn_params=True, eq_params={"a": True})


def _solve_kwargs(cfg, theta, a, s, sp, so, w, ost, n_iter):
    params = Params(nn_params=theta, eq_params={"a": a})
    kw = dict(n_iter=n_iter, init_params=params, data=OGen(s), loss=OLoss(w=w, nb=nb_of(cfg["param"], cfg["obs"])),
              optimizer=opaque_optimizer(P_) if cfg["opt"] == "opaque" else optax.sgd(0.1),
              tracked_params=_tracked(cfg["tracked"]))
    if cfg["param"]:
        kw["param_data"] = OParGen(sp)
    if cfg["obs"]:
        kw["obs_data"] = OObsGen(so)
    if cfg["ost"]:
        kw["opt_state"] = ost
    if cfg.get("rar"):
        kw["_rar_contract"] = True          # refinement replaced by its contract (see solve_util.rar_contract)
    if cfg.get("verbose"):
        # printing is an effect only: every value of the loop is the same with and without it
        kw.update(verbose=True, print_loss_every=2)
    return kw


def _capture(cfg, n_iter):
    """one throw-away trace of solve to obtain the real closures, the carry structure and the leaf shapes"""
    so_ = make_opaques(P_)
    cap = Capture()
    def f(theta, a, s, sp, so, w, ost):
        cap.solve(**_solve_kwargs(cfg, theta, a, s, sp, so, w, ost, n_iter))
        return 0
    jax.make_jaxpr(f)(jnp.zeros(P_), jnp.zeros(()), jnp.zeros(KS), jnp.zeros(KS), jnp.zeros(KS), jnp.zeros(1), jnp.zeros(so_))
    return cap, so_


BASE_INPUTS = lambda so_: [Inp("theta", (P_,)), Inp("a", ()), Inp("s", (KS,)), Inp("sp", (KS,)), Inp("so", (KS,)), Inp("w", (1,)),
                           Inp("ost", (so_,))]


def cfg_tag(cfg, n_iter):
    return (f"[n_iter={n_iter},opt={cfg['opt']},param_gen={int(cfg['param'])},obs_gen={int(cfg['obs'])},tracked={cfg['tracked']},"
            f"opt_state_given={int(cfg['ost'])}{',verbose' if cfg.get('verbose') else ''}{',refinement_by_contract' if cfg.get('rar') else ''}]")


def zeros(shape):
    return arr(lambda _: P.ZERO, shape)


def call(name, args, n):
    return [P.app(name, j, (), args) for j in range(n)]


def init_return(cfg, n_iter):
    def build():
        cap, so_ = _capture(cfg, n_iter)
        avals = cap.rec["avals"]
        treedef = cap.rec["treedef"]
        nleaf = len(avals)
        fin_inputs = [Inp(f"fin{k}", tuple(shp), _kind(dt), dtype=np.dtype(dt)) for k, (shp, dt) in enumerate(avals)]
        def fn(theta, a, s, sp, so, w, ost, *fin):
            c2 = Capture()
            out = c2.solve(final_leaves=fin, **_solve_kwargs(cfg, theta, a, s, sp, so, w, ost, n_iter))
            return c2.rec["carry"], out
        def spec(theta, a, s, sp, so, w, ost, *fin, wrong=False):
            prm = lambda: Params(nn_params=theta, eq_params={"a": a})
            if cfg["ost"]:
                opt0 = ost
            elif cfg["opt"] == "opaque":
                opt0 = arr(lambda j: call("Oinit", pts(theta) + [a[()]], so_)[j[0]], (so_,))
            else:
                opt0 = optax.sgd(0.1).init(Params(nn_params=np.zeros(P_), eq_params={"a": np.zeros(())}))
            adv = lambda nm, st: arr(lambda j: call(nm, pts(st), KS)[j[0]], (KS,))
            data = OGen(adv("Gg", s) if not wrong else s)
            pgen = OParGen(adv("Gp", sp)) if cfg["param"] else None
            ogen = OObsGen(adv("Go", so)) if cfg["obs"] else None
            tr = cfg["tracked"]
            stored = Params(nn_params=zeros((n_iter, P_)) if tr == "both" else None,
                            eq_params={"a": zeros((n_iter,)) if tr in ("a", "both") else None})
            carry0 = (0, OLoss(w=w, nb=nb_of(cfg["param"], cfg["obs"])),
                      OptimizationContainer(prm(), prm(), opt0),
                      OptimizationExtraContainer(0, prm(), False),
                      DataGeneratorContainer(data, pgen, ogen), None,
                      LossContainer({TERM_NAMES[j]: zeros((n_iter,)) for j in range(NT)}, zeros((n_iter,))),
                      StoredObjectContainer(stored), None)
            fc = jax.tree_util.tree_unflatten(treedef, list(fin))
            out = (fc[2].last_non_nan_params, fc[6].train_loss_values, fc[6].stored_loss_terms, fc[4].data, fc[1],
                   fc[2].opt_state, fc[7].stored_params, None, None)
            return carry0, out
        return dict(fn=fn, spec=spec, canary=lambda *z: spec(*z, wrong=True), inputs=BASE_INPUTS(so_) + fin_inputs)
    return EqObligation("C07/solve/ensures.initial_carry_and_returned_tuple" + cfg_tag(cfg, n_iter), build,
                        [SM + "solve", SM + "_get_get_batch.get_batch"])


def expected_step(cfg, n_iter, i, so_, cr, wrong=False, validation=None):
    """the reference loop's next state from the carry `cr` (pytree with symbolic leaves), iteration index i (concrete)"""
    (_, loss, optc, extra, gens, val, lc, stc, crit) = cr
    theta, a = optc.params.nn_params, optc.params.eq_params["a"]
    s = gens.data.state
    t = call("Bg", pts(s), B)
    largs = pts(theta) + [a[()]] + pts(loss.w) + t
    new_p, new_o = gens.param_data, gens.obs_data
    if cfg["param"]:
        largs += call("Bp", pts(gens.param_data.state), B)
        new_p = OParGen(arr(lambda j: call("Gp", pts(gens.param_data.state), KS)[j[0]], (KS,)))
    if cfg["obs"]:
        largs += call("Bo", pts(gens.obs_data.state), 2 * B)
        new_o = OObsGen(arr(lambda j: call("Go", pts(gens.obs_data.state), KS)[j[0]], (KS,)))
    Ln = f"L{nb_of(cfg['param'], cfg['obs'])}"
    y = [P.app(Ln, j, (), largs) for j in range(1 + NT)]
    g = [P.app(Ln, 0, (k,), largs) for k in range(P_ + 1)]
    if cfg["opt"] == "opaque":
        u = call("Oupd", g + pts(optc.opt_state) + pts(theta) + [a[()]], P_ + 1 + so_)
        upd, opt1 = u[:P_ + 1], arr(lambda j: u[P_ + 1 + j[0]], (so_,))
    else:
        upd, opt1 = [-(c(1) / 10) * gk for gk in g], optc.opt_state
    if wrong:
        upd = upd[1:] + upd[:1]
    th1 = arr(lambda j: theta[j[0]] + upd[j[0]], (P_,))
    a1 = arr(lambda _: a[()] + upd[P_], ())
    p1 = lambda: Params(nn_params=th1, eq_params={"a": a1})
    anynan = P.ZERO
    for q in pts(th1) + [a1[()]]:
        anynan = P.b_or(anynan, P.b_isnan(q))
    def keep(old, new):
        return arr(lambda j: anynan * old[j] + (P.ONE - anynan) * new[j], new.shape)
    last1 = Params(nn_params=keep(optc.last_non_nan_params.nn_params, th1),
                   eq_params={"a": keep(optc.last_non_nan_params.eq_params["a"], a1)})
    def setat(old, v):
        out = old.copy()
        out[i] = v
        return out
    tr = cfg["tracked"]
    sp_old = stc.stored_params
    stored = Params(nn_params=setat(sp_old.nn_params, th1) if tr == "both" else None,
                    eq_params={"a": setat(sp_old.eq_params["a"], a1[()]) if tr in ("a", "both") else None})
    lc1 = LossContainer({TERM_NAMES[j]: setat(lc.stored_loss_terms[TERM_NAMES[j]], y[1 + j]) for j in range(NT)},
                        setat(lc.train_loss_values, y[0]))
    data1 = OGen(arr(lambda j: call("Gg", pts(s), KS)[j[0]], (KS,)))
    if cfg.get("rar"):
        # the refinement step is handed the batch-advanced generator and the *current* (just updated) parameters
        zr = pts(data1.state) + pts(th1) + [a1[()], c(i)]
        data1 = OGen(arr(lambda j: call("Rar", zr, KS)[j[0]], (KS,)))
    if validation is None:
        extra1 = OptimizationExtraContainer(0, p1(), False)      # curr_seq: solve's (legacy) constant 0
        val1, crit1 = None, None
    else:
        extra1, val1, crit1 = validation(p1, th1, a1, extra, val, crit)
    return (i + 1, loss, OptimizationContainer(p1(), last1, opt1), extra1, DataGeneratorContainer(data1, new_p, new_o),
            val1, lc1, StoredObjectContainer(stored), crit1)


def _kind(dt):
    dt = np.dtype(dt)
    return "bool" if dt == np.bool_ else ("int" if np.issubdtype(dt, np.integer) else "real")


def carry_inputs(avals, i):
    return [Inp(f"c{k}", tuple(shp), _kind(dt), dtype=np.dtype(dt)) for k, (shp, dt) in enumerate(avals)]


def step(cfg, n_iter, i):
    def build():
        cap, so_ = _capture(cfg, n_iter)
        avals, treedef, body = cap.rec["avals"], cap.rec["treedef"], cap.rec["body"]
        inputs = carry_inputs(avals, i)
        def fix(leaves):
            # leaf 0 is the iteration counter: concrete (every value of [0, n_iter) gets its own obligation)
            return [jnp.asarray(i, dtype=avals[0][1])] + list(leaves[1:])
        def fn(*leaves):
            with rar_contract(bool(cfg.get("rar"))):
                return body(jax.tree_util.tree_unflatten(treedef, fix(leaves)))
        def spec(*leaves, wrong=False):
            cr = jax.tree_util.tree_unflatten(treedef, list(leaves))
            return expected_step(cfg, n_iter, i, so_, cr, wrong=wrong)
        return dict(fn=fn, spec=spec, canary=lambda *z: spec(*z, wrong=True), inputs=inputs)
    return EqObligation(f"C07/_one_iteration/ensures.reference_step[i={i}]" + cfg_tag(cfg, n_iter), build,
                        [SM + "solve._one_iteration", SM + "_gradient_step", SM + "_store_loss_and_params",
                         SM + "_get_get_batch.get_batch", "jinns.data._DataGenerators:append_param_batch",
                         "jinns.data._DataGenerators:append_obs_batch"])


def guard(cfg, n_iter, i):
    def build():
        cap, so_ = _capture(cfg, n_iter)
        avals, treedef, cond = cap.rec["avals"], cap.rec["treedef"], cap.rec["cond"]
        inputs = carry_inputs(avals, i)
        def fn(*leaves):
            lv = [jnp.asarray(i, dtype=avals[0][1])] + list(leaves[1:])
            return cond(jax.tree_util.tree_unflatten(treedef, lv))
        def spec(*leaves, wrong=False):
            cr = jax.tree_util.tree_unflatten(treedef, list(leaves))
            optc, extra = cr[2], cr[3]
            anynan = P.ZERO
            for q in pts(optc.params.nn_params) + [optc.params.eq_params["a"][()]]:
                anynan = P.b_or(anynan, P.b_isnan(q))
            cont = (P.ONE if i < n_iter else P.ZERO) * (P.ONE - anynan) * (P.ONE - extra.early_stopping[()])
            if wrong:
                cont = (P.ONE if i <= n_iter else P.ZERO) * (P.ONE - anynan)
            return arr(lambda _: cont, ())
        return dict(fn=fn, spec=spec, canary=lambda *z: spec(*z, wrong=True), inputs=inputs)
    return EqObligation(f"C07/break_fun/ensures.continue_iff[i={i}]" + cfg_tag(cfg, n_iter), build,
                        [SM + "_get_break_fun.break_fun", "jinns.utils._utils:_check_nan_in_pytree"])


def batch_size_check(kind):
    """_check_batch_size (Engine A, symbolic sizes): solve rejects an auxiliary generator whose batch size does not match
    the main generator's (temporal / spatial / product), and only then"""
    def run(seed):
        import time, z3
        from vf import pyvc
        from vf.pyvc import Executor, Rec
        t0 = time.time()
        ex = Executor([R("/repo/jinns/solver/_solve.py"), R("/repo/jinns/data/_DataGenerators.py")])
        bt, bx, pb = z3.Ints("bt bx pb")
        main = {"ODE": Rec("DataGeneratorODE", dict(temporal_batch_size=bt)),
                "statio": Rec("CubicMeshPDEStatio", dict(omega_batch_size=bx)),
                "nonstatio": Rec("CubicMeshPDENonStatio", dict(omega_batch_size=bx, temporal_batch_size=bt))}[kind]
        expected = {"ODE": bt, "statio": bx, "nonstatio": bx * bt}[kind]
        outs = ex.call_function("_check_batch_size", [Rec("Other", dict(param_batch_size=pb)), main, "param_batch_size"],
                                pc=[bt >= 1, bx >= 1, pb >= 1])
        for o in outs:
            cond = pb != expected if o.kind == "raise" else pb == expected
            st, model = pyvc.prove(cond, list(o.pc))
            if st != "unsat":
                nat = native_batch_size_witness() if st == "sat" else None
                return dict(status="violated" if st == "sat" else "undecided", failure="value", backend="pyvc+z3",
                            detail=f"_check_batch_size[{kind}]: path ending in {o.kind} is reachable with {model}",
                            replay=dict(native_disagrees=bool(nat), solver_output=str(model), native=nat or "not reproduced natively",
                                        expected="ValueError iff the auxiliary batch size differs from the main generator's"))
        kinds = sorted({o.kind for o in outs})
        ok = kinds == ["raise", "return"] and all(o.value == "ValueError" for o in outs if o.kind == "raise")
        return dict(status="discharged" if ok else "violated", backend="pyvc+z3", failure="value", solver_s=time.time() - t0,
                    detail="" if ok else f"outcomes {kinds}", sample=f"raises ValueError iff batch size != {expected}",
                    replay=dict(native_disagrees=False))
    return FnObligation(f"C07/_check_batch_size/ensures.raises_iff_mismatch[{kind}]", run, [SM + "_check_batch_size"])


def get_batch_ob(sharding, param, obs, obs_cls="DataGeneratorObservations"):
    """
    both functions returned by _get_get_batch: the batch is the main generator's batch with the parameter / observation
    batches appended, and each returned generator is exactly the generator its own get_batch returned (all fields) — the
    next draw continues every generator's own sequence.  Generators are records with fresh symbolic fields; their
    get_batch is replaced by its contract (C09 / C15): (a new generator, a batch).
    """
    def run(seed):
        import time, z3
        from vf import pyvc
        from vf.pyvc import Executor, Rec
        t0 = time.time()
        ex = Executor([R("/repo/jinns/solver/_solve.py"), R("/repo/jinns/data/_DataGenerators.py"), R("/repo/jinns/data/_Batchs.py")])
        fld = {"DataGeneratorODE": ["key", "times", "curr_time_idx", "p_times"],
               "DataGeneratorParameter": ["keys", "param_n_samples", "curr_param_idx"],
               obs_cls: ["key", "indices", "curr_idx", "observed_pinn_in", "observed_values", "observed_eq_params"]}
        def gen(cls, gen_no):
            return Rec(cls, {f: z3.Int(f"{cls}.{f}@{gen_no}") for f in fld[cls]})
        old = {c: gen(c, 0) for c in fld}
        new = {c: gen(c, 1) for c in fld}
        tb, pbd, obd = z3.Int("temporal_batch"), z3.Int("param_batch"), z3.Int("obs_batch")
        ex.contracts["DataGeneratorODE.get_batch"] = lambda ex_, fv, a, k, pc: [((new["DataGeneratorODE"], Rec("ODEBatch", dict(
            temporal_batch=tb, param_batch_dict=None, obs_batch_dict=None))), pc)]
        ex.contracts["DataGeneratorParameter.get_batch"] = lambda ex_, fv, a, k, pc: [((new["DataGeneratorParameter"], pbd), pc)]
        ex.contracts[obs_cls + ".get_batch"] = lambda ex_, fv, a, k, pc: [((new[obs_cls], obd), pc)]
        outs = ex.call_function("_get_get_batch", ["a-sharding" if sharding else None])
        assert len(outs) == 1 and outs[0].kind == "return"
        clo = outs[0].value
        want = "get_batch_sharding" if sharding else "get_batch"
        if getattr(clo.node, "name", None) != want:
            return dict(status="violated", failure="value", backend="pyvc", replay=dict(native_disagrees=False),
                        detail=f"_get_get_batch({'sharding' if sharding else None}) returns {getattr(clo.node, 'name', clo)}, expected {want}")
        res = ex.apply(clo, [old["DataGeneratorODE"], old["DataGeneratorParameter"] if param else None,
                             old[obs_cls] if obs else None], {}, [])
        bad = []
        for (val, pc) in res:
            batch, d, pd_, od = val
            exp_batch = dict(temporal_batch=tb, param_batch_dict=pbd if param else None, obs_batch_dict=obd if obs else None)
            for k_, v in exp_batch.items():
                got = batch.fields.get(k_)
                if not (got is v or (pyvc.is_z3(got) and pyvc.is_z3(v) and got.eq(v))):
                    bad.append(f"batch.{k_} = {got}, expected {v}")
            for got, cls, on in ((d, "DataGeneratorODE", True), (pd_, "DataGeneratorParameter", param), (od, obs_cls, obs)):
                if not on:
                    if got is not None:
                        bad.append(f"a generator appears from nowhere: {got}")
                    continue
                if not isinstance(got, Rec) or got.cls != cls:
                    bad.append(f"returned {cls} is {got}")
                    continue
                for f in fld[cls]:
                    g, w = got.fields.get(f), new[cls].fields[f]
                    if not (g is w or (pyvc.is_z3(g) and g.eq(w))):
                        bad.append(f"returned {cls}.{f} is {g}: not the field of the generator that its get_batch returned ({w})")
        if bad:
            return dict(status="violated", failure="value", backend="pyvc", detail=bad[0] + (f" (+{len(bad) - 1} more)" if len(bad) > 1 else ""),
                        replay=native_get_batch_witness(sharding, seed))
        return dict(status="discharged", backend="pyvc", solver_s=time.time() - t0,
                    sample=f"{len(res)} path(s); generators threaded through unchanged, batches appended")
    return FnObligation(f"C07/_get_get_batch.{'get_batch_sharding' if sharding else 'get_batch'}/ensures.generators_threaded"
                        f"[param_gen={int(param)},obs_gen={int(obs)}{',multi' if obs_cls != 'DataGeneratorObservations' else ''}]", run,
                        [SM + "_get_get_batch." + ("get_batch_sharding" if sharding else "get_batch"),
                         "jinns.data._DataGenerators:append_param_batch", "jinns.data._DataGenerators:append_obs_batch"])


def native_get_batch_witness(sharding, seed):
    """replay on the real code: draw batches through the real function with real generators and compare with the
    generators' own sequences"""
    import numpy as np
    try:
        import jinns
        from jinns.solver._solve import _get_get_batch
        from jinns.data import DataGeneratorODE, DataGeneratorObservations
        key = jax.random.PRNGKey(seed)
        k1, k2 = jax.random.split(key)
        data = DataGeneratorODE(key=k1, nt=8, tmin=0.0, tmax=1.0, temporal_batch_size=4)
        n = 12
        obs = DataGeneratorObservations(key=k2, obs_batch_size=4, observed_pinn_in=jnp.arange(n, dtype=float)[:, None],
                                        observed_values=jnp.arange(n, dtype=float)[:, None] * 10.0)
        sh = jax.sharding.SingleDeviceSharding(jax.devices()[0]) if sharding else None
        gb = _get_get_batch(sh)
        from jinns.data import DataGeneratorParameter
        par = DataGeneratorParameter(jax.random.PRNGKey(seed + 3), 12, 4, {"nu": (0.0, 1.0)}, "uniform", {})
        ref, refp = obs, par
        d, o, p_ = data, obs, par
        for it in range(12):
            batch, d, p_, o = gb(d, p_, o)
            ref, rb = ref.get_batch()
            refp, rpb = refp.get_batch()
            if not np.array_equal(np.asarray(batch.obs_batch_dict["pinn_in"]), np.asarray(rb["pinn_in"])):
                return dict(native_disagrees=True, inputs=dict(n_obs=n, obs_batch_size=4, draw=it, seed=seed),
                            native=np.asarray(batch.obs_batch_dict["pinn_in"]).ravel().tolist(),
                            expected=np.asarray(rb["pinn_in"]).ravel().tolist())
            if not np.array_equal(np.asarray(batch.param_batch_dict["nu"]), np.asarray(rpb["nu"])):
                return dict(native_disagrees=True, inputs=dict(n_params=12, param_batch_size=4, draw=it, seed=seed,
                                                               path="get_batch_sharding" if sharding else "get_batch"),
                            native=np.asarray(batch.param_batch_dict["nu"]).ravel().tolist(),
                            expected=np.asarray(rpb["nu"]).ravel().tolist())
        return dict(native_disagrees=False, native="12 draws agree with the observation and parameter generators' own sequences")
    except Exception as e:
        return dict(native_disagrees=False, native="witness search failed: " + repr(e)[:200])


def native_batch_size_witness():
    try:
        from jinns.solver._solve import _check_batch_size
        from jinns.data import DataGeneratorODE, CubicMeshPDEStatio, CubicMeshPDENonStatio, DataGeneratorObservations
        k = jax.random.PRNGKey(0)
        mains = {"ODE": (DataGeneratorODE(k, 10, 0.0, 1.0, 5), 5),
                 "statio": (CubicMeshPDEStatio(key=k, n=8, nb=None, omega_batch_size=4, omega_border_batch_size=None, dim=1, min_pts=(0.0,), max_pts=(1.0,)), 4),
                 "nonstatio": (CubicMeshPDENonStatio(key=k, n=8, nb=None, nt=10, omega_batch_size=4, omega_border_batch_size=None, temporal_batch_size=5,
                                                    dim=1, min_pts=(0.0,), max_pts=(1.0,), tmin=0.0, tmax=1.0), 20)}
        for nm, (main, good) in mains.items():
            for size in (good, good + 1, 4 if good != 4 else 5):
                obs = DataGeneratorObservations(k, size, jnp.zeros((40, 1)), jnp.zeros((40, 1)))
                try:
                    _check_batch_size(obs, main, "obs_batch_size")
                    raised = False
                except ValueError:
                    raised = True
                if raised != (size != good):
                    return [f"_check_batch_size({nm} generator with batch size {good}, observation batch size {size}) "
                            f"{'raises ValueError' if raised else 'accepts it'}"]
    except Exception:
        return None
    return None


def native_resumed_rar(kind):
    """a run resumed on the generator (and optimizer state) returned by a first run, for a refining generator: the second
    call must run its n iterations; the active counts follow the schedule restarted at iteration 0"""
    import numpy as np, warnings, optax
    import equinox as eqx
    import jinns
    from jinns.parameters import Params
    k = jax.random.PRNGKey(1)
    rp = {"start_iter": 0, "update_every": 1, "sample_size_times": 4, "selected_sample_size_times": 2, "sample_size_omega": 5, "selected_sample_size_omega": 2}
    with warnings.catch_warnings():
        warnings.simplefilter("ignore")
        if kind == "ODE":
            class Dyn(jinns.loss.ODE):
                def equation(self, t, u, params):
                    return u(t, params) - jnp.sin(3 * t)
            u = jinns.utils.create_PINN(jax.random.PRNGKey(0), ((eqx.nn.Linear, 1, 4), (jnp.tanh,), (eqx.nn.Linear, 4, 1)), "ODE")
            g = jinns.data.DataGeneratorODE(k, 20, 0.0, 1.0, 2, "uniform", {q: v for q, v in rp.items() if "omega" not in q}, 4)
            params = Params(nn_params=u.init_params(), eq_params={})
            loss = jinns.loss.LossODE(u=u, dynamic_loss=Dyn(), params=params)
        elif kind == "statio":
            class Dyn(jinns.loss.PDEStatio):
                def equation(self, x, u, params):
                    return u(x, params) - jnp.sin(3 * x[0:1])
            u = jinns.utils.create_PINN(jax.random.PRNGKey(0), ((eqx.nn.Linear, 2, 4), (jnp.tanh,), (eqx.nn.Linear, 4, 1)), "statio_PDE", 2)
            g = jinns.data.CubicMeshPDEStatio(key=k, n=20, nb=None, omega_batch_size=2, omega_border_batch_size=None, dim=2, min_pts=(0.0, 0.0),
                                              max_pts=(1.0, 1.0), rar_parameters={q: v for q, v in rp.items() if "times" not in q}, n_start=4)
            params = Params(nn_params=u.init_params(), eq_params={})
            loss = jinns.loss.LossPDEStatio(u=u, dynamic_loss=Dyn(), params=params)
        else:
            class Dyn(jinns.loss.PDENonStatio):
                def equation(self, t, x, u, params):
                    return u(t, x, params) - jnp.sin(3 * t) * x[0:1]
            u = jinns.utils.create_PINN(jax.random.PRNGKey(0), ((eqx.nn.Linear, 3, 4), (jnp.tanh,), (eqx.nn.Linear, 4, 1)), "nonstatio_PDE", 2)
            g = jinns.data.CubicMeshPDENonStatio(key=k, n=20, nb=None, nt=20, omega_batch_size=2, omega_border_batch_size=None, temporal_batch_size=2, dim=2,
                                                 min_pts=(0.0, 0.0), max_pts=(1.0, 1.0), tmin=0.0, tmax=1.0, rar_parameters=rp, n_start=4, nt_start=4)
            params = Params(nn_params=u.init_params(), eq_params={})
            loss = jinns.loss.LossPDENonStatio(u=u, dynamic_loss=Dyn(), params=params)
        tx = optax.adam(1e-3)
        out = jinns.solve(n_iter=2, init_params=params, data=g, loss=loss, optimizer=tx, verbose=False)

        def active(gen):
            return tuple(int((np.asarray(getattr(gen, f)) != 0).sum()) for f in ("p_times", "p_omega") if getattr(gen, f, None) is not None)
        a1 = active(out[3])
        try:
            out2 = jinns.solve(n_iter=2, init_params=out[0], data=out[3], loss=loss, optimizer=tx, opt_state=out[5], verbose=False)
        except Exception as e:
            return [f"{kind} refining generator: solve(n_iter=2) then solve(n_iter=2) on the returned parameters, optimizer state and generator "
                    f"raises {type(e).__name__}: {str(e).splitlines()[0][:200]}"]
        a2 = active(out2[3])
        if len(np.asarray(out2[1])) != 2 or not np.all(np.isfinite(np.asarray(out2[1]))) or any(y != x + 4 for x, y in zip(a1, a2)):
            return [f"{kind} refining generator: resumed run of 2 iterations: loss history {np.asarray(out2[1]).tolist()}, active points {a1} -> {a2} "
                    f"(expected +4 on each refined store)"]
        # a third call of another length (the loop runs exactly n iterations, whatever earlier calls in the process ran)
        def steps(st):
            cs = [int(x) for x in jax.tree_util.tree_leaves(st) if getattr(x, "dtype", None) is not None and jnp.issubdtype(x.dtype, jnp.integer) and jnp.ndim(x) == 0]
            return cs[0] if cs else None
        out3 = jinns.solve(n_iter=3, init_params=out2[0], data=out2[3], loss=loss, optimizer=tx, opt_state=out2[5], verbose=False)
        if steps(out3[5]) is not None and (steps(out2[5]), steps(out3[5])) != (4, 7):
            return [f"{kind}: solve(n_iter=2), resumed with n_iter=2, resumed with n_iter=3: the optimizer's step counter reads {steps(out2[5])} then "
                    f"{steps(out3[5])} (expected 4 then 7: exactly n iterations per call)"]
    return None


def resumed_rar_ob(kind):
    """bounded (native): the engines reach `init_rar` only through its contract; that the generator *returned* by solve is
    again a legal argument of solve (sizes that must be static are still static) is a fact about Python types that neither
    engine tracks.  Three generator kinds, one run each."""
    name = f"C07/solve/ensures.returned_generator_is_resumable[{kind},refining,bounded]"
    def run(seed):
        t0 = time.time()
        try:
            wit = native_resumed_rar(kind)
        except Exception as e:
            return dict(status="undecided", backend="native(bounded)", bounded=True, solver_s=time.time() - t0, detail="native monitor failed: " + repr(e)[:200],
                        replay=dict(native_disagrees=False))
        if wit:
            return dict(status="violated", failure="raises", backend="native(bounded)", bounded=True, solver_s=time.time() - t0, detail=wit[0],
                        replay=dict(native_disagrees=True, native=wit[0], inputs=dict(kind=kind, n_iter=(2, 2)),
                                    expected="the second call runs its 2 iterations from the returned state"))
        return dict(status="discharged", backend="native(bounded)", bounded=True, solver_s=time.time() - t0,
                    sample="one run per generator kind: 2 + 2 iterations, period 1", replay=dict(native_disagrees=False))
    return FnObligation(name, run, ["jinns/solver/_solve.py::solve", "jinns/solver/_rar.py::init_rar"])


def configs(tier):
    base = dict(opt="opaque", param=False, obs=False, tracked="none", ost=False)
    cs = [base, dict(base, opt="sgd"), dict(base, param=True, obs=True, tracked="both"), dict(base, tracked="a", ost=True),
          dict(base, param=True), dict(base, obs=True, opt="sgd", tracked="both"), dict(base, verbose=True, tracked="a")]
    return cs


def rar_config():
    return dict(opt="opaque", param=False, obs=False, tracked="a", ost=False, rar=True)


def obligations(tier):
    obs = []
    n_iters = (3,) if tier == "quick" else (1, 2, 3, 5)
    for cfg in configs(tier):
        for n_iter in n_iters:
            obs.append(init_return(cfg, n_iter))
            for i in range(n_iter):
                obs.append(step(cfg, n_iter, i))
    for n_iter in n_iters:
        for i in range(n_iter + 1):
            obs.append(guard(configs(tier)[0], n_iter, i))
    for i in range(n_iters[0] + 1):
        obs.append(guard(configs(tier)[-1], n_iters[0], i))          # the same guard when it also prints why it stops
    for i in range(n_iters[0]):
        obs.append(step(rar_config(), n_iters[0], i))                # with a refining generator (refinement by contract)
    for kind in ("ODE", "statio", "nonstatio"):
        obs.append(batch_size_check(kind))
        obs.append(resumed_rar_ob(kind))
    # with a validation module attached (uninterpreted; its schedule is C19): the step is the same textbook step and
    # the tracked-parameter history still stores the iteration's own parameters
    from contracts import c19
    for i in range(n_iters[0]):
        o = c19.val_step(configs(tier)[3], n_iters[0], i, 2)
        o.name = o.name.replace("C19/_one_iteration/ensures.validation_schedule", "C07/_one_iteration/ensures.reference_step.with_validation_module")
        obs.append(o)
    for sharding in (False, True):
        for (p_, o_) in ((False, False), (True, False), (False, True), (True, True)):
            obs.append(get_batch_ob(sharding, p_, o_))
        obs.append(get_batch_ob(sharding, True, True, obs_cls="DataGeneratorObservationsMultiPINNs"))
    return obs
