"""
C02 — built-in dynamic losses equal the residual of their documented equation (PINN branches;
SPINN branches are C11).  Under contract: DynamicLoss._evaluate, ODE/PDEStatio/PDENonStatio.evaluate
(heterogeneity decorator with eq_params_heterogeneity=None), `equation` of BurgerEquation, FisherKPP,
OU_FPENonStatioLoss2D (+ FPENonStatioLoss2D.equation, drift, sigma_mat, diffusion),
GeneralizedLotkaVolterra, MassConservation2DStatio, NavierStokes2DStatio.
Tmax, every equation parameter, t, x, theta symbolic; networks uninterpreted.
"""
from contracts.common import *
from contracts import opspec
import jinns.loss._DynamicLoss as DL
from jinns.loss import (BurgerEquation, FisherKPP, OU_FPENonStatioLoss2D, GeneralizedLotkaVolterra,
                        MassConservation2DStatio, NavierStokes2DStatio)

META = dict(
    trusted_base=TRUSTED_B + ["log is an atom whose derivative rule is JAX's (GLV log form); division presupposes a non-zero divisor (N > 0 for log N, rho != 0)"],
    bounded_in={"Fisher-KPP spatial dimension": "1..3", "GLV number of other populations": "0..2",
                "network parameter vector": "length 1"},
    unbounded_in=["t", "x", "theta", "Tmax", "all equation parameters", "the networks (any C^4 functions)"],
    assumptions=["GLV is read in its log form with the parameter roles fixed by the code-adjacent documentation "
                 "(a_0 multiplies the main population, a_{i+1} the i-th of keys_other, c the main population's carrying capacity)"],
)
DLMOD = "jinns.loss._DynamicLoss"
ABS = ["jinns.loss._DynamicLossAbstract:PDENonStatio.evaluate", "jinns.loss._DynamicLossAbstract:DynamicLoss._evaluate"]


def burgers():
    def build():
        net = Net("Nb", "nonstatio_PDE", 2, 1)
        def fn(t, x, th, nu, Tmax):
            return BurgerEquation(Tmax=Tmax).evaluate(t, x, net.u, net.params(th, {"nu": nu}))
        def spec(t, x, th, nu, Tmax):
            n = net.jet(th); pt = [t[0], x[0]]
            return arr(lambda _: n(0, pt, (0,)) + Tmax[()] * (n(0, pt) * n(0, pt, (1,)) - nu[()] * n(0, pt, (1, 1))), (1,))
        def canary(t, x, th, nu, Tmax):
            n = net.jet(th); pt = [t[0], x[0]]
            return arr(lambda _: Tmax[()] * n(0, pt, (0,)) + (n(0, pt) * n(0, pt, (1,)) - nu[()] * n(0, pt, (1, 1))), (1,))
        return dict(fn=fn, spec=spec, canary=canary,
                    inputs=[Inp("t", (1,)), Inp("x", (1,)), Inp("th", (1,)), Inp("nu", ()), Inp("Tmax", (), "pos")])
    return EqObligation("C02/BurgerEquation.evaluate/ensures[d=1]", build, [DLMOD + ":BurgerEquation.equation"] + ABS)


def fisher(d, modular):
    def build():
        net = Net("Nf", "nonstatio_PDE", 1 + d, 1)
        def fn(t, x, th, D, r, g, Tmax):
            return FisherKPP(Tmax=Tmax).evaluate(t, x, net.u, net.params(th, {"D": D, "r": r, "g": g}))
        if modular:
            fn = opspec.with_patches(DL, fn, _laplacian_rev=opspec.laplacian_c)
        def spec(t, x, th, D, r, g, Tmax):
            n = net.jet(th); pt = [t[0]] + pts(x)
            lap = sum((n(0, pt, (1 + i, 1 + i)) for i in range(d)), P.ZERO)
            return arr(lambda _: n(0, pt, (0,)) + Tmax[()] * (-D[()] * lap - n(0, pt) * (r[()] - g[()] * n(0, pt))), (1,))
        def canary(t, x, th, D, r, g, Tmax):
            n = net.jet(th); pt = [t[0]] + pts(x)
            lap = sum((n(0, pt, (1 + i, 1 + i)) for i in range(d)), P.ZERO)
            return arr(lambda _: n(0, pt, (0,)) + Tmax[()] * (-D[()] * lap - n(0, pt) * (r[()] + g[()] * n(0, pt))), (1,))
        return dict(fn=fn, spec=spec, canary=canary,
                    inputs=[Inp("t", (1,)), Inp("x", (d,)), Inp("th", (1,)), Inp("D", ()), Inp("r", ()), Inp("g", ()),
                            Inp("Tmax", (), "pos")])
    tag = "modular" if modular else "closure"
    return EqObligation(f"C02/FisherKPP.evaluate/ensures.{tag}[d={d}]", build, [DLMOD + ":FisherKPP.equation"] + ABS)


def ou():
    def build():
        net = Net("No", "nonstatio_PDE", 3, 1)
        def fn(t, x, th, alpha, mu, sigma, Tmax):
            return OU_FPENonStatioLoss2D(Tmax=Tmax).evaluate(
                t, x, net.u, net.params(th, {"alpha": alpha, "mu": mu, "sigma": sigma}))
        def body(t, x, th, alpha, mu, sigma, Tmax, wrong=False):
            n = net.jet(th); pt = [t[0], x[0], x[1]]
            N = n(0, pt)
            order1 = sum((-alpha[i] * N + alpha[i] * (mu[i] - x[i]) * n(0, pt, (1 + i,)) for i in range(2)), P.ZERO)
            half = c(1) / 2 if not wrong else c(1)
            order2 = sum((half * sigma[i] * sigma[i] * n(0, pt, (1 + i, 1 + i)) for i in range(2)), P.ZERO)
            return arr(lambda _: -n(0, pt, (0,)) + Tmax[()] * (-order1 + order2), (1,))
        return dict(fn=fn, spec=body, canary=lambda *a: body(*a, wrong=True),
                    inputs=[Inp("t", (1,)), Inp("x", (2,)), Inp("th", (1,)), Inp("alpha", (2,)), Inp("mu", (2,)),
                            Inp("sigma", (2,)), Inp("Tmax", (), "pos")])
    return EqObligation("C02/OU_FPENonStatioLoss2D.evaluate/ensures[d=2]", build,
                        [DLMOD + ":FPENonStatioLoss2D.equation", DLMOD + ":OU_FPENonStatioLoss2D.drift",
                         DLMOD + ":OU_FPENonStatioLoss2D.sigma_mat", DLMOD + ":OU_FPENonStatioLoss2D.diffusion"] + ABS)


def _read_growth(inp, params):
    return jnp.concatenate([inp, jnp.reshape(params.eq_params["growth_rate"], (1,))])


def glv(n_other, layout, tshape, keys=None, unnamed=(), nets_read_eq=False):
    """unnamed: further populations present in u_dict / params that this equation does not name (a partially coupled
    system): they do not enter the residual"""
    keys = keys or [str(k) for k in range(1 + n_other)]
    def build():
        # nets_read_eq: every population's network reads its *own* growth rate through its input transform (a hard-coded
        # dependence on the equation parameters, as with a hyper-network)
        nets = {k: Net(f"G{k}", "ODE", 2 if nets_read_eq else 1, 1, positive=True, input_transform=_read_growth if nets_read_eq else None)
                for k in list(keys) + list(unnamed)}
        u_dict = {k: nets[k].u for k in list(keys) + list(unnamed)}
        def mk_params(ths, growth, inter, cc):
            nn = {k: nets[k].nn_params(ths[i]) for i, k in enumerate(keys)}
            for k in unnamed:
                nn[k] = nets[k].nn_params(ths[0] * 3.0 + 1.0)
            if layout == "per-network":
                # each network has its own parameter dict; only the main one's values may be used
                eq = {k: {"growth_rate": growth[i], "interactions": inter[i], "carrying_capacity": cc[i]}
                      for i, k in enumerate(keys)}
                for k in unnamed:
                    eq[k] = {"growth_rate": growth[0] + 1.0, "interactions": inter[0], "carrying_capacity": cc[0] + 2.0}
            else:
                eq = {"growth_rate": growth[0], "interactions": inter[0], "carrying_capacity": cc[0]}
            return ParamsDict(nn_params=nn, eq_params=eq)
        def fn(t, ths, growth, inter, cc, Tmax):
            dyn = GeneralizedLotkaVolterra(key_main=keys[0], keys_other=keys[1:], Tmax=Tmax)
            return dyn.evaluate(t, u_dict, mk_params(ths, growth, inter, cc))
        def body(t, ths, growth, inter, cc, Tmax, wrong=False):
            tt = t[0] if tshape == (1,) else t[()]
            own = (lambda i: [growth[i if layout == "per-network" else 0]]) if nets_read_eq else (lambda i: [])
            N = [nets[k].jet(ths[i])(0, [tt] + own(i)) for i, k in enumerate(keys)]
            dN0 = nets[keys[0]].jet(ths[0])(0, [tt] + own(0), (0,))
            a = [inter[0, j] for j in range(1 + n_other)]
            if wrong and n_other:
                a = a[1:] + a[:1]
            s_int = sum((a[j] * N[j] for j in range(1 + n_other)), P.ZERO)
            s_cc = cc[0] * sum(N, P.ZERO)
            val = dN0 / N[0] + Tmax[()] * (-growth[0] - s_int + s_cc if not (wrong and not n_other) else growth[0] - s_int + s_cc)
            return arr(lambda _: val, (1,))
        return dict(fn=fn, spec=body, canary=lambda *a: body(*a, wrong=True),
                    inputs=[Inp("t", tshape, "unit"), Inp("th", (1 + n_other, 1)), Inp("growth", (1 + n_other,)),
                            Inp("inter", (1 + n_other, 1 + n_other)), Inp("cc", (1 + n_other,)), Inp("Tmax", (), "pos")])
    return EqObligation(f"C02/GeneralizedLotkaVolterra.evaluate/ensures[others={n_other},layout={layout},t={tshape},keys={'/'.join(keys)}"
                        f"{'' if not unnamed else ',populations_not_named_by_the_equation=' + '/'.join(unnamed)}"
                        f"{',networks_read_their_own_eq_params' if nets_read_eq else ''}]", build,
                        [DLMOD + ":GeneralizedLotkaVolterra.equation", "jinns.loss._DynamicLossAbstract:ODE.evaluate",
                         "jinns.parameters._params:ParamsDict.extract_params"])


def mass(modular, layout):
    def build():
        net = Net("Nm", "statio_PDE", 2, 2)
        other = Net("Nmo", "statio_PDE", 2, 1)
        def fn(x, th, th2, junk):
            nn = {"u": net.nn_params(th), "p": other.nn_params(th2)}
            eq = {"u": {"k": junk}, "p": {"k": junk}} if layout == "per-network" else {"k": junk}
            return MassConservation2DStatio(nn_key="u").evaluate(x, {"u": net.u, "p": other.u},
                                                                 ParamsDict(nn_params=nn, eq_params=eq))
        if modular:
            fn = opspec.with_patches(DL, fn, _div_rev=opspec.div_c)
        def spec(x, th, th2, junk):
            n = net.jet(th); pt = pts(x)
            return arr(lambda _: n(0, pt, (0,)) + n(1, pt, (1,)), (1,))
        def canary(x, th, th2, junk):
            n = net.jet(th); pt = pts(x)
            return arr(lambda _: n(0, pt, (1,)) + n(1, pt, (0,)), (1,))
        return dict(fn=fn, spec=spec, canary=canary,
                    inputs=[Inp("x", (2,)), Inp("th", (1,)), Inp("th2", (1,)), Inp("junk", ())])
    tag = "modular" if modular else "closure"
    return EqObligation(f"C02/MassConservation2DStatio.evaluate/ensures.{tag}[layout={layout}]", build,
                        [DLMOD + ":MassConservation2DStatio.equation", "jinns.loss._DynamicLossAbstract:PDEStatio.evaluate",
                         "jinns.parameters._params:ParamsDict.extract_params"])


def ns(modular, ukey, pkey):
    def build():
        nu_ = Net("Nu", "statio_PDE", 2, 2)
        np_ = Net("Np", "statio_PDE", 2, 1)
        def fn(x, thu, thp, rho, nu):
            pd = ParamsDict(nn_params={ukey: nu_.nn_params(thu), pkey: np_.nn_params(thp)},
                            eq_params={"rho": rho, "nu": nu})
            return NavierStokes2DStatio(u_key=ukey, p_key=pkey).evaluate(x, {ukey: nu_.u, pkey: np_.u}, pd)
        if modular:
            fn = opspec.with_patches(DL, fn, _u_dot_nabla_times_u_rev=opspec.u_dot_nabla_times_u_c,
                                     _vectorial_laplacian=opspec.vectorial_laplacian_c)
        def body(x, thu, thp, rho, nu, wrong=False):
            n = nu_.jet(thu); q = np_.jet(thp); pt = pts(x)
            def comp(j):
                adv = n(0, pt) * n(j, pt, (0,)) + n(1, pt) * n(j, pt, (1,))
                lap = n(j, pt, (0, 0)) + n(j, pt, (1, 1))
                dp = q(0, pt, ((j if not wrong else 1 - j),))
                return adv + dp / rho[()] - nu[()] * lap
            return arr(lambda j: comp(j[0]), (2,))
        return dict(fn=fn, spec=body, canary=lambda *a: body(*a, wrong=True),
                    inputs=[Inp("x", (2,)), Inp("thu", (1,)), Inp("thp", (1,)), Inp("rho", (), "pos"), Inp("nu", ())])
    tag = "modular" if modular else "closure"
    return EqObligation(f"C02/NavierStokes2DStatio.evaluate/ensures.{tag}[keys={ukey},{pkey}]", build,
                        [DLMOD + ":NavierStokes2DStatio.equation", "jinns.loss._DynamicLossAbstract:PDEStatio.evaluate",
                         "jinns.parameters._params:ParamsDict.extract_params"])


def ns_hetero(which):
    """a parameter declared heterogeneous is read, in the residual, as the declared function of the point"""
    def build():
        nu_ = Net("Nu", "statio_PDE", 2, 2)
        np_ = Net("Np", "statio_PDE", 2, 1)
        H = Opaque("hNS", 3, 1, positive=(which == "rho"))
        def h(x, u, params):
            return H(jnp.concatenate([x, jnp.reshape(params.eq_params[which], (1,))]))[0]
        def fn(x, thu, thp, rho, nu):
            pd = ParamsDict(nn_params={"u": nu_.nn_params(thu), "p": np_.nn_params(thp)}, eq_params={"rho": rho, "nu": nu})
            return NavierStokes2DStatio(u_key="u", p_key="p", eq_params_heterogeneity={which: h}).evaluate(
                x, {"u": nu_.u, "p": np_.u}, pd)
        def body(x, thu, thp, rho, nu, wrong=False):
            n = nu_.jet(thu); q = np_.jet(thp); pt = pts(x)
            val = {"rho": rho[()], "nu": nu[()]}
            if not wrong:
                val[which] = P.app("hNS", 0, (), pt + [val[which]])
            def comp(j):
                adv = n(0, pt) * n(j, pt, (0,)) + n(1, pt) * n(j, pt, (1,))
                lap = n(j, pt, (0, 0)) + n(j, pt, (1, 1))
                return adv + q(0, pt, (j,)) / val["rho"] - val["nu"] * lap
            return arr(lambda j: comp(j[0]), (2,))
        return dict(fn=fn, spec=body, canary=lambda *a: body(*a, wrong=True),
                    inputs=[Inp("x", (2,)), Inp("thu", (1,)), Inp("thp", (1,)), Inp("rho", (), "pos"), Inp("nu", ())])
    return EqObligation(f"C02/NavierStokes2DStatio.evaluate/ensures.heterogeneous[{which}]", build,
                        [DLMOD + ":NavierStokes2DStatio.equation", "jinns.loss._DynamicLossAbstract:PDEStatio.evaluate",
                         "jinns.loss._DynamicLossAbstract:_decorator_heteregeneous_params.wrapper_pde_statio",
                         "jinns.loss._DynamicLossAbstract:DynamicLoss._eval_heterogeneous_parameters"])


def fisher_hetero(int_declared=False):
    """int_declared: the caller's own entry of the heterogeneous key is an integer placeholder; the equation still uses
    the (real) value of the map at the point"""
    def build():
        net = Net("Nf", "nonstatio_PDE", 2, 1)
        H = Opaque("hF", 3, 1)
        def h(t, x, u, params):
            return H(jnp.concatenate([t, x, jnp.reshape(params.eq_params["r"], (1,))]))[0]
        def fn(t, x, th, D, r, g, Tmax):
            return FisherKPP(Tmax=Tmax, eq_params_heterogeneity={"r": h, "D": None}).evaluate(
                t, x, net.u, net.params(th, {"D": D, "r": r, "g": g}))
        def spec(t, x, th, D, r, g, Tmax, wrong=False):
            n = net.jet(th); pt = [t[0], x[0]]
            rr = P.app("hF", 0, (), pt + [r[()]]) if not wrong else r[()]
            return arr(lambda _: n(0, pt, (0,)) + Tmax[()] * (-D[()] * n(0, pt, (1, 1)) - n(0, pt) * (rr - g[()] * n(0, pt))), (1,))
        return dict(fn=fn, spec=spec, canary=lambda *a: spec(*a, wrong=True),
                    inputs=[Inp("t", (1,)), Inp("x", (1,)), Inp("th", (1,)), Inp("D", ()), Inp("r", (), "int" if int_declared else "real"), Inp("g", ()),
                            Inp("Tmax", (), "pos")])
    return EqObligation("C02/FisherKPP.evaluate/ensures.heterogeneous[r" + (",integer_typed_declared_entry" if int_declared else "") + "]", build,
                        [DLMOD + ":FisherKPP.equation", "jinns.loss._DynamicLossAbstract:_decorator_heteregeneous_params.wrapper_pde_non_statio",
                         "jinns.loss._DynamicLossAbstract:DynamicLoss._eval_heterogeneous_parameters"] + ABS)


def obligations(tier):
    obs = [burgers(), ou(), ns_hetero("nu"), ns_hetero("rho"), fisher_hetero(), fisher_hetero(int_declared=True)]
    # the separable-network (forward-mode) branches of the built-in equations: the C11 contract, reported under C02
    from contracts import c11
    for (r_, B) in ([(1, 2), (2, 1)] if tier == "quick" else [(1, 1), (1, 2), (2, 1), (2, 2)]):
        for which, dx in (("burgers", 1), ("fisher", 1), ("mass", 2), ("ns", 2)):
            o = c11.equation_ob(which, dx, r_, B)
            o.name = o.name.replace("C11/", "C02/").replace("grid_entry_equals_pointwise", "ensures.grid_entry_is_documented_residual")
            obs.append(o)
    for which in ("fisher", "ou"):
        o = c11.equation_ob(which, 2, 1, 2)
        o.name = o.name.replace("C11/", "C02/").replace("grid_entry_equals_pointwise", "ensures.grid_entry_is_documented_residual")
        obs.append(o)
    for d in (1, 2, 3, 4):
        obs.append(fisher(d, False))
        if tier == "thorough" or d == 2:
            obs.append(fisher(d, True))
    # frame: evaluating an equation leaves the caller's parameters unchanged (a residual that depends on how often it was
    # evaluated is not "the documented expression"): the C20 ownership analysis of the equation code, reported here
    from contracts import c20
    for q in c20.cone_names():
        if q.startswith(("jinns.loss._DynamicLossAbstract:", "jinns.loss._DynamicLoss:", "jinns.parameters._params:ParamsDict.extract_params")):
            o = c20.frame_ob(q)
            o.name = o.name.replace("C20/frame/", "C02/frame.arguments_unchanged/")
            obs.append(o)
    for n_other in (0, 1, 2):
        for layout in ("per-network", "shared"):
            if tier == "quick" and n_other == 2 and layout == "shared":
                continue
            obs.append(glv(n_other, layout, ()))
    obs.append(glv(1, "per-network", (1,)))
    obs.append(glv(2, "per-network", (), keys=["prey", "zebra", "ant"]))      # keys_other listed out of alphabetical order
    obs.append(glv(2, "shared", (), keys=["m", "z", "a"]))
    obs.append(glv(1, "per-network", (), keys=["a", "b"], unnamed=("c",)))     # a partially coupled system
    obs.append(glv(0, "shared", (), keys=["m"], unnamed=("a", "z")))
    obs.append(glv(2, "per-network", (), nets_read_eq=True))
    obs.append(glv(1, "shared", (), nets_read_eq=True))
    for (dx_, B_) in ((1, 2), (2, 2)):      # growth rate given on the grid of a separable network (heterogeneous r)
        o = c11.fisher_grid_r_ob(dx_, B_)
        o.name = o.name.replace("C11/", "C02/")
        obs.append(o)
    for layout in ("per-network", "shared"):
        obs.append(mass(False, layout))
    obs.append(mass(True, "shared"))
    obs.append(ns(False, "u", "p"))
    obs.append(ns(True, "u", "p"))
    obs.append(ns(False, "b", "a"))      # key names whose sort order is reversed
    return obs
