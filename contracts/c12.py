"""
C12 — per-sample (batched) equation parameters and heterogeneous parameters are aligned.
Under contract: _update_eq_params_dict, _get_vmap_in_axes_params, _decorator_heteregeneous_params (three wrappers),
DynamicLoss._eval_heterogeneous_parameters, evaluate of the three single losses with batch.param_batch_dict set
(system losses: see the obligations imported from contracts.c13 at the end).
The network reads 'a' through its input transform, the residual reads 'a' and 'b'; every subset K of {a, b} is batched.
Heterogeneity: the equation (and whatever it calls with the params it was given, the network included) sees
eq_params[k] = h_k(point, u, caller's params) for declared k; h_k itself and every other loss term see the caller's values.
"""
from contracts.common import *
from contracts.scenario import *

META = dict(
    trusted_base=TRUSTED_B + ["symbolic differentiation of the term specifications (vf.poly.diff)"],
    bounded_in={"batch size": "2..3", "equation parameter keys": "2 (every subset batched)", "heterogeneity maps": "every subset of 2 keys declared"},
    unbounded_in=["batched rows", "caller's parameter values", "networks, residuals, heterogeneity functions (uninterpreted)", "derivative masks (symbolic)"],
    assumptions=["terms whose points are not the collocation batch (normalisation samples, 1-D border pair) are outside the "
                 "per-sample statement and are not configured in these obligations"],
)
ON = {"ODE": ["dyn_loss", "initial_condition", "observations"], "statio": ["dyn_loss", "observations"],
      "nonstatio": ["dyn_loss", "observations", "initial_condition"]}
PR = "jinns.parameters._params:"


def batched(kind, K, B, grad_group=None, int_caller=False, caller_has_batch_shape=False, flat=False, matrix_b=False):
    """flat: the per-sample table of a scalar parameter is given as a flat (B,) vector (one scalar per sample).
    caller_has_batch_shape: the caller's own value of the batched key 'a' already has the shape of a batch column
    (a placeholder, or the batch of an earlier evaluation): the batch still decides"""
    K = tuple(K)
    def build():
        S = Scen(kind, B=B, a_shape=(B, 1) if caller_has_batch_shape else (), b_shape=(2, 2) if matrix_b else ())
        terms = TERMS[kind]
        cshape = (B,) if flat else (B, 1)
        row = (lambda c, i: c[i]) if flat else (lambda c, i: c[i, 0])
        rowb = (lambda c, i: c[i, 1, 0] + 2 * c[i, 0, 1]) if matrix_b else row      # one 2 x 2 matrix per sample
        extra = [Inp("acol", cshape), Inp("bcol", (B, 2, 2) if matrix_b else cshape)]
        names = S.names(mask_shape=(len(terms), 3), extra=extra)
        base_inputs = S.inputs(mask_shape=(len(terms), 3), extra=extra)
        if int_caller:      # the caller's own (overridden) value of a batched key is integer typed
            base_inputs = [Inp(i.name, i.shape, "int") if i.name in K else i for i in base_inputs]
        def pb(a):
            return {k: a[k + "col"] for k in K}
        def run(a):
            loss, params, batch = S.loss_batch(a, derivative_keys=S.dkeys(a["mk"]), param_batch=pb(a), on=ON[kind])
            return loss.evaluate(params, batch)
        def term_specs(s):
            return S.term_specs(s, a_rows=[row(s["acol"], i) for i in range(B)] if "a" in K else None,
                                b_rows=[rowb(s["bcol"], i) for i in range(B)] if "b" in K else None, on=ON[kind])
        if grad_group is None:
            def fn(*args):
                a = dict(zip(names, args))
                tot, ts = run(a)
                return [ts[t] for t in ON[kind]]
            def spec(*args, wrong=False):
                s = dict(zip(names, args))
                if wrong and K:
                    s = dict(s)
                    s[K[0] + "col"] = s[K[0] + "col"][::-1]
                sp = term_specs(s)
                return [arr(lambda _, t=t: sp[t] + (1 if wrong and not K else 0), ()) for t in ON[kind]]
        else:
            gi = {"th": 0, "a": 1, "b": 2}[grad_group]
            def fn(*args):
                a0 = dict(zip(names, args))
                def total(th, a_, b_):
                    a = dict(a0); a.update(th=th, a=a_, b=b_)
                    return run(a)[0]
                return jnp.reshape(jax.grad(total, argnums=gi)(a0["th"], a0["a"], a0["b"]), ())
            def spec(*args, wrong=False):
                s = dict(zip(names, args))
                sp = term_specs(s)
                var = {"th": s["th"][0], "a": s["a"][()], "b": s["b"][()]}[grad_group]
                tot = P.ZERO
                for i, t in enumerate(terms):
                    if t in ON[kind]:
                        tot = tot + s["mk"][i, gi] * P.diff(sp[t], var)
                return arr(lambda _: tot + (1 if wrong else 0), ())
        return dict(fn=fn, spec=spec, canary=lambda *z: spec(*z, wrong=True),
                    inputs=base_inputs, timeout_ms=20000)
    cls = {"ODE": "jinns.loss._LossODE:LossODE.evaluate", "statio": "jinns.loss._LossPDE:LossPDEStatio.evaluate",
           "nonstatio": "jinns.loss._LossPDE:LossPDENonStatio.evaluate"}[kind]
    what = "terms" if grad_group is None else f"gradient[{grad_group}]"
    if int_caller:
        what += ".integer_typed_caller_value"
    if caller_has_batch_shape:
        what += ".caller_value_shaped_like_the_batch"
    if flat:
        what += ".flat_table"
    if matrix_b:
        what += ".matrix_valued_rows"
    return EqObligation(f"C12/{cls.split(':')[1]}/ensures.param_batch.{what}[{kind},K={'+'.join(K) or 'none'},B={B}]", build,
                        [cls, PR + "_update_eq_params_dict", PR + "_get_vmap_in_axes_params"])


def observed_and_batched(kind, B, same_key=False):
    """the batch carries 'b' per sample and the observations carry 'a' per observation; same_key: the batch carries 'a'
    per sample too (other rows): the collocation terms use the batch rows, the observation term the observed rows"""
    def build():
        S = Scen(kind, B=B)
        extra = [Inp("acol", (B, 1)), Inp("bcol", (B, 1)), Inp("a2col", (B, 1))]
        names = S.names(extra=extra)
        def fn(*args):
            a = dict(zip(names, args))
            pb = {"b": a["bcol"]}
            if same_key:
                pb["a"] = a["a2col"]
            loss, params, batch = S.loss_batch(a, param_batch=pb, obs_eq={"a": a["acol"]}, on=ON[kind])
            return [loss.evaluate(params, batch)[1][t] for t in ON[kind]]
        def spec(*args, wrong=False):
            s = dict(zip(names, args))
            ao = [s["acol"][i, 0] for i in range(B)]
            a2 = [s["a2col"][i, 0] for i in range(B)]
            if same_key and wrong:
                ao = a2
            sp = S.term_specs(s, a_rows=a2 if same_key else None, b_rows=[s["bcol"][i, 0] for i in range(B)],
                              a_obs=ao[::-1] if (wrong and not same_key) else ao, on=ON[kind])
            return [arr(lambda _, t=t: sp[t], ()) for t in ON[kind]]
        return dict(fn=fn, spec=spec, canary=lambda *z: spec(*z, wrong=True), inputs=S.inputs(extra=extra))
    return EqObligation(f"C12/evaluate/ensures.param_batch_and_observed_param[{kind},B={B}{',same_key_in_both' if same_key else ''}]", build,
                        [PR + "_update_eq_params_dict", PR + "_get_vmap_in_axes_params"])


class _CallableObject:
    """a heterogeneity map given as an object with __call__ (an eqx.Module is the same case)"""
    def __init__(self, f):
        self.f = f
    def __call__(self, *a):
        return self.f(*a)


def hetero(kind, declared, via, form="lambda", tmax=False, int_declared=False):
    """declared: dict key -> 'h' | None ; keys absent are undeclared; form: how the callables are given
    (lambda | functools.partial | object with __call__) — any callable is a heterogeneity map"""
    def build():
        dp = {"ODE": 1, "statio": 1, "nonstatio": 2}[kind]
        H = {k: Opaque("h" + k, dp + 1 + 2, 1) for k, v in declared.items() if v == "h"}
        def mk(k):
            def core(pt, uval, params):
                return H[k](jnp.concatenate([pt, uval, jnp.reshape(params.eq_params["a"], (1,)),
                                             jnp.reshape(params.eq_params["b"], (1,))]))[0]
            if kind == "ODE":
                return lambda t, u, params: core(jnp.reshape(t, (1,)), u(t, params), params)
            if kind == "statio":
                return lambda x, u, params: core(x, u(x, params), params)
            return lambda t, x, u, params: core(jnp.concatenate([t, x]), u(t, x, params), params)
        import functools
        wrap = {"lambda": (lambda f: f), "partial": (lambda f: functools.partial(f)), "object": _CallableObject}[form]
        het = {k: (wrap(mk(k)) if v == "h" else None) for k, v in declared.items()}
        S = Scen(kind, B=2, hetero=het)
        extra = [Inp("Tmax", (), "pos")] if tmax else []
        names = S.names(extra=extra)
        def fn(*args):
            a = dict(zip(names, args))
            if tmax:        # the time rescaling factor of the equation does not move the point the maps are evaluated at
                S.dyn = eqx.tree_at(lambda d_: d_.Tmax, S.dyn0, a["Tmax"])
            if via == "loss":
                loss, params, batch = S.loss_batch(a, on=ON[kind])
                ts = loss.evaluate(params, batch)[1]
                return [ts[t] for t in ON[kind]]
            params = S.params(a)
            p0 = a["pts"][0]
            if kind == "ODE":
                r = S.dyn.evaluate(p0, S.net.u, params)
            elif kind == "statio":
                r = S.dyn.evaluate(p0, S.net.u, params)
            else:
                r = S.dyn.evaluate(p0[0:1], p0[1:], S.net.u, params)
            return a["wd"] * jnp.sum(r ** 2)
        def hs(key, pt, full, av, bv, n, wrong=False):
            if declared.get(key) != "h":
                return None
            return P.app("h" + key, 0, (), pt + [n(0, full), av, bv if not wrong else av])
        def spec(*args, wrong=False):
            s = dict(zip(names, args))
            if via == "loss":
                # the replacement is scoped to the equation: every other term sees the caller's parameters
                sp = S.term_specs(s, hetero_spec=lambda *q: hs(*q, wrong=wrong), on=ON[kind])
                return [arr(lambda _, t=t: sp[t] + (1 if wrong and not H else 0), ()) for t in ON[kind]]
            S1 = S
            old = S1.B
            S1.B = 1
            try:
                sp = S1.term_specs(s, hetero_spec=lambda *q: hs(*q, wrong=wrong), on=["dyn_loss"])
            finally:
                S1.B = old
            return arr(lambda _: sp["dyn_loss"] + (1 if wrong and not H else 0), ())
        S.dyn0 = S.dyn
        inputs = S.inputs(extra=extra)
        if int_declared:        # the caller's own entries of the declared keys are integer placeholders
            inputs = [Inp(i.name, i.shape, "int") if (i.name in declared and declared[i.name] == "h") else i for i in inputs]
        return dict(fn=fn, spec=spec, canary=lambda *z: spec(*z, wrong=True), inputs=inputs)
    dd = ",".join(f"{k}:{v}" for k, v in declared.items()) or "empty"
    wrap = {"ODE": "wrapper_ode", "statio": "wrapper_pde_statio", "nonstatio": "wrapper_pde_non_statio"}[kind]
    return EqObligation(f"C12/DynamicLoss.evaluate/ensures.heterogeneity[{kind},declared={dd},via={via}{'' if form == 'lambda' else ',given_as=' + form}{',Tmax_symbolic' if tmax else ''}{',integer_typed_declared_entries' if int_declared else ''}]", build,
                        ["jinns.loss._DynamicLossAbstract:_decorator_heteregeneous_params." + wrap,
                         "jinns.loss._DynamicLossAbstract:DynamicLoss._eval_heterogeneous_parameters"])


def obligations(tier):
    obs = []
    for kind in ("ODE", "statio", "nonstatio"):
        for K in ((), ("a",), ("b",), ("a", "b"), ("b", "a")):      # ("b","a"): batch dict written in another order than eq_params
            obs.append(batched(kind, K, 2))
        if tier == "thorough":
            obs.append(batched(kind, ("a",), 3))
        for g in ("th", "a", "b"):
            obs.append(batched(kind, ("a",), 2, grad_group=g))
        obs.append(batched(kind, ("b",), 2, grad_group="a"))
        obs.append(batched(kind, ("a",), 2, int_caller=True))
        obs.append(batched(kind, ("a", "b"), 2, int_caller=True))
        obs.append(batched(kind, ("a",), 2, caller_has_batch_shape=True))
        obs.append(batched(kind, ("a", "b"), 2, flat=True))           # one scalar per sample, given as a flat vector
        obs.append(batched(kind, ("b",), 2, matrix_b=True))            # one matrix per sample
        obs.append(batched(kind, ("a",), 2, matrix_b=True))            # an unbatched matrix next to a batched scalar
        obs.append(batched(kind, ("b",), 3 if tier == "thorough" else 2, flat=True))
        obs.append(observed_and_batched(kind, 2))
        obs.append(observed_and_batched(kind, 2, same_key=True))
        for declared in ({"a": "h"}, {"b": "h", "a": None}, {}, {"a": "h", "b": "h"}):
            obs.append(hetero(kind, declared, "evaluate"))
        obs.append(hetero(kind, {"a": "h"}, "loss"))
        obs.append(hetero(kind, {"a": "h", "b": None}, "evaluate", form="partial"))
        obs.append(hetero(kind, {"b": "h"}, "evaluate", form="object"))
        obs.append(hetero(kind, {"a": "h", "b": "h"}, "evaluate", tmax=True))
        obs.append(hetero(kind, {"a": "h"}, "loss", tmax=True))
        obs.append(hetero(kind, {"a": "h", "b": "h"}, "evaluate", int_declared=True))
    # metamodels: the per-sample parameters reach a hyper-network in the order of its `hyperparams` list, whatever order
    # the dictionary has after vmap / jit rebuilt it (C10 contract of HYPERPINN.eval_nn, reported under C12)
    from contracts import c10
    for kind, d in (("ODE", 0), ("statio", 2)):
        o = c10.hyper_ob(kind, d, 1, [(), (2,)], False, order=["b", "a"])
        o.name = o.name.replace("C10/", "C12/network_input/")
        obs.append(o)
    try:
        from contracts.c13 import c12_system_obligations
        obs += c12_system_obligations(tier)
    except ImportError:
        pass
    return obs
