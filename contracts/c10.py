"""
C10 — network wrappers honour their calling and output conventions.
Under contract: PINN.__call__/eval_nn, _MLP.__call__, create_PINN (slice handling, shared outputs),
SPINN.__call__/eval_nn, _SPINN.__call__, create_SPINN, HYPERPINN.eval_nn/_hyper_to_pinn, _get_param_nb.
Inner networks, transforms and the hyper-network are uninterpreted.
"""
import itertools
from typing import Any
from contracts.common import *
import jinns.utils._pinn as pinn_mod
from jinns.utils._pinn import PINN, create_PINN, _MLP
from jinns.utils._spinn import SPINN, create_SPINN, _SPINN
from jinns.utils._hyperpinn import HYPERPINN, _get_param_nb

META = dict(
    trusted_base=TRUSTED_B + ["equinox partition/combine/tree_at and jax.tree_util are structural (executed natively while tracing)"],
    bounded_in={"network input dimension": "1..3", "outputs": "1..3", "separable rank r": "1..2", "batch per axis": "1..2",
                "hyper-network: inner MLP": "Linear(din,2) -> tanh -> Linear(2,m), 1..2 designated parameters"},
    unbounded_in=["inner networks, transforms, hyper-network (uninterpreted)", "inputs", "parameter values"],
    assumptions=[],
)
PM = "jinns.utils._pinn:"


def _eqt(kind):
    return {"ODE": "ODE", "statio": "statio_PDE", "nonstatio": "nonstatio_PDE"}[kind]


class _RawShape(eqx.Module):
    """a user network whose raw output is not a plain (m,) vector: a 0-d value (`scalar`, m = 1) or a (1, m) row (`row`)"""
    inner: Any
    mode: str = eqx.field(static=True)

    def __call__(self, x):
        y = self.inner(x)
        return y[0] if self.mode == "scalar" else y[None, :]


def pinn_ob(kind, d, m, tshape, oslice, tout_shape, transforms, bare, raw=None):
    """d = spatial dim; tout_shape: shape returned by the output transform ('same' = identity transform);
    raw: None | 'scalar' | 'row' — shape of the wrapped network's raw output (see _RawShape)"""
    din = {"ODE": 1, "statio": d, "nonstatio": 1 + d}[kind]
    q = 2     # width after the input transform
    name = (f"C10/PINN.__call__/ensures[{kind},d={d},m={m},t={tshape},output_slice={oslice and (oslice.start, oslice.stop)},"
            f"Tout={tout_shape},transforms={int(transforms)},bare_nn_params={int(bare)}{'' if raw is None else ',raw_network_output=' + raw}]")
    def build():
        Tin = OpaqueFn("Tin", [(din,), ()], (q,))
        mo = (m,) if m > 1 else ()
        To = OpaqueFn("Tout", [(din,), mo, ()], tout_shape if tout_shape != "same" else mo)
        F = Opaque("M", (q if transforms else din) + 1, m)
        mlp_ = OpaqueMLP(theta=jnp.zeros((1,)), F=F)
        if raw is not None:
            mlp_ = _RawShape(inner=mlp_, mode=raw)
        u = PINN(mlp=mlp_, slice_solution=jnp.s_[0:m], eq_type=_eqt(kind),
                 input_transform=(lambda i, p: Tin(i, p.eq_params["a"])) if transforms else ident_in,
                 output_transform=(lambda i, o, p: To(i, o, p.eq_params["a"])) if transforms else ident_out,
                 output_slice=oslice)
        def fn(th, t, x, a):
            nn = eqx.tree_at(lambda z: (z.inner.theta if raw is not None else z.theta), u.params, th)
            params = nn if bare else Params(nn_params=nn, eq_params={"a": a})
            if kind == "ODE":
                return u(t, params)
            if kind == "statio":
                return u(x, params)
            return u(t, x, params)
        def spec(th, t, x, a, wrong=False):
            tt = [t[0] if tshape == (1,) else t[()]]
            inp = {"ODE": tt, "statio": pts(x), "nonstatio": tt + pts(x)}[kind]
            if transforms:
                h = [P.app("Tin", j, (), inp + [a[()]]) for j in range(q)]
            else:
                h = inp
            mv = [P.app("M", j, (), h + [th[0]]) for j in range(m)]
            if transforms:
                n_out = int(np.prod(tout_shape)) if tout_shape else 1
                res = [P.app("Tout", j, (), inp + mv + [a[()]]) for j in range(n_out)]
                has_axis = len(tout_shape) > 0
            else:
                res, has_axis = mv, m > 1
            if oslice is not None:
                assert has_axis
                res = res[oslice]
            if wrong:
                res = res[::-1] if len(res) > 1 else [res[0] + 1]
            return arr(lambda j: res[j[0]], (len(res),))      # always a trailing component axis
        return dict(fn=fn, spec=spec, canary=lambda *z: spec(*z, wrong=True),
                    inputs=[Inp("th", (1,)), Inp("t", tshape), Inp("x", (max(d, 1),)), Inp("a", ())])
    return EqObligation(name, build, [PM + "PINN.__call__", PM + "PINN.eval_nn"])


class _Factory:
    """eqx_list entry (factory, n_in, n_out): builds an opaque layer; one fresh opaque function per call"""
    def __init__(self, prefix):
        self.prefix, self.count, self.made = prefix, 0, []
    def __call__(self, n_in, n_out, key=None):
        F = Opaque(f"{self.prefix}{self.count}", n_in + 1, n_out)
        self.count += 1
        self.made.append(F)
        return OpaqueMLP(theta=jnp.zeros((1,)), F=F)


def create_pinn_ob(shared, slices=(jnp.s_[0:1], jnp.s_[1:3])):
    din, h, m = 2, 2, 3
    def build():
        fac = _Factory("L")
        res = create_PINN(jax.random.PRNGKey(0), ((fac, din, h), (jnp.tanh,), (fac, h, m)), "statio_PDE", dim_x=din,
                          shared_pinn_outputs=slices if shared else None, slice_solution=1)
        us = res if shared else [res]
        assert all(u.slice_solution == slice(1, 2) for u in us), "slice_solution int must be rewritten as a slice"
        def set_th(u, th):
            return jax.tree_util.tree_map(lambda leaf: th, u.params)
        def fn(th, x):
            return [u(x, Params(nn_params=set_th(u, th), eq_params={})) for u in us]
        def spec(th, x, wrong=False):
            h1 = [P.unary("tanh", P.app("L0", j, (), pts(x) + [th[0]])) for j in range(h)]
            out = [P.app("L1", j, (), h1 + [th[0]]) for j in range(m)]
            if wrong:
                out = out[1:] + out[:1]
            if shared:
                res = []
                for s in slices:
                    sel = out[s] if isinstance(s, slice) else [out[s]]       # an integer selects one component (trailing axis kept)
                    res.append(arr(lambda j, sel=sel: sel[j[0]], (len(sel),)))
                return res
            return [arr(lambda j: out[j[0]], (m,))]
        return dict(fn=fn, spec=spec, canary=lambda *z: spec(*z, wrong=True), inputs=[Inp("th", (1,)), Inp("x", (din,))])
    desc = ",".join(f"{x.start}:{x.stop}" if isinstance(x, slice) else str(x) for x in slices)
    return EqObligation(f"C10/create_PINN/ensures[shared_pinn_outputs={int(shared)},slices={desc}]", build,
                        [PM + "create_PINN", PM + "_MLP.__call__", PM + "_MLP.__post_init__", PM + "PINN.eval_nn"])


def spinn_ob(kind, d, r, m, B, bare=False):
    """d = total number of separable dimensions (time included); bare: called with the bare network parameters"""
    def build():
        fac = _Factory("f")
        u = create_SPINN(jax.random.PRNGKey(0), d, r, ((fac, 1, r * m),), _eqt(kind), m)
        assert fac.count == d
        def fn(th, t, x, stale):
            nn = jax.tree_util.tree_map(lambda leaf: th, u.params)
            # `_SPINN.layers` is a left-over of the construction loop (a second copy of the last per-dimension network):
            # f_d is `separated_mlp[d]`; the copy gets other values and must not be read
            nn = eqx.tree_at(lambda z: z.layers, nn, jax.tree_util.tree_map(lambda leaf: stale, nn.layers))
            params = nn if bare else Params(nn_params=nn, eq_params={})
            return u(x, params) if kind == "statio" else u(t, x, params)
        def spec(th, t, x, stale, wrong=False):
            def coord(i, j):      # value of coordinate j for batch index i ; time first
                if kind == "nonstatio":
                    return t[i, 0] if j == 0 else x[i, j - 1]
                return x[i, j]
            def f(j, i, c_):
                return P.app(f"f{j}", c_, (), [coord(i, j), th[0]])
            def entry(idx):
                *ii, mm = idx
                if wrong:
                    ii = ii[::-1] if len(set(ii)) > 1 else ii
                    mm = mm if len(set(idx[:-1])) > 1 or m == 1 else (mm + 1) % m
                tot = P.ZERO
                for z in range(r):
                    term = P.ONE
                    for j in range(d):
                        term = term * f(j, ii[j], mm * r + z)
                    tot = tot + term
                return tot if not (wrong and m == 1 and len(set(idx[:-1])) <= 1) else tot + 1
            return arr(entry, (B,) * d + (m,))
        dx = d - 1 if kind == "nonstatio" else d
        return dict(fn=fn, spec=spec, canary=lambda *z: spec(*z, wrong=True),
                    inputs=[Inp("th", (1,)), Inp("t", (B, 1)), Inp("x", (B, max(dx, 1))), Inp("stale", (1,))])
    return EqObligation(f"C10/SPINN.__call__/ensures[{kind},d={d},r={r},m={m},B={B}{',bare_nn_params' if bare else ''}]", build,
                        ["jinns.utils._spinn:SPINN.__call__", "jinns.utils._spinn:SPINN.eval_nn",
                         "jinns.utils._spinn:_SPINN.__call__", "jinns.utils._spinn:create_SPINN"])


class AdaptiveTanh(eqx.Module):
    """an activation with a trainable scalar (0-d) slope: tanh(slope * x)"""
    slope: jax.Array

    def __init__(self, slope, key=None):
        self.slope = jnp.asarray(slope, dtype=float)

    def __call__(self, x):
        return jnp.tanh(self.slope * x)


def hyper_ob(kind, d, m, hp_shapes, transforms, order=None, tshape=(1,), adaptive=False):
    din = {"ODE": 1, "statio": d, "nonstatio": 1 + d}[kind]
    hid = 2
    keys = order or ["a", "b"][:len(hp_shapes)]
    nin = sum(int(np.prod(s)) if s else 1 for s in hp_shapes)
    def build():
        act = (AdaptiveTanh, 1.0) if adaptive else (jnp.tanh,)          # adaptive: the inner network has a 0-d trainable leaf
        inner = _MLP(key=jax.random.PRNGKey(1), eqx_list=((eqx.nn.Linear, din, hid), act, (eqx.nn.Linear, hid, m)))
        sizes = [hid * din, hid] + ([1] if adaptive else []) + [m * hid, m]          # tree_leaves order
        total = sum(sizes)
        H = Opaque("H", nin + 1, total)
        To = OpaqueFn("To", [(din,), (m,) if m > 1 else (), ()], (m,))
        u = HYPERPINN(mlp=inner, hyper_mlp=OpaqueMLP(theta=jnp.zeros((1,)), F=H), slice_solution=jnp.s_[0:m],
                      eq_type=_eqt(kind), input_transform=ident_in,
                      output_transform=(lambda i, o, p: To(i, o, p.eq_params["c"])) if transforms else ident_out,
                      hyperparams=keys, hypernet_input_size=nin)
        nb, cum = _get_param_nb(u.params)
        assert int(nb) == total and list(cum) == list(np.cumsum(sizes)), (nb, cum)
        def fn(th, t, x, a, b, cpar):
            nn = eqx.tree_at(lambda z: z.theta, u.params_hyper, th)
            params = Params(nn_params=nn, eq_params={"a": a, "b": b, "c": cpar, "unused": cpar * 3})
            if kind == "ODE":
                return u(t, params)
            if kind == "statio":
                return u(x, params)
            return u(t, x, params)
        def spec(th, t, x, a, b, cpar, wrong=False):
            t0_ = t[0] if t.shape else t[()]
            inp = {"ODE": [t0_], "statio": pts(x), "nonstatio": [t0_] + pts(x)}[kind]
            hin = []
            for kk in keys:                                  # in the order of the `hyperparams` list
                v = {"a": a, "b": b}[kk]
                hin += [v[idx] for idx in np.ndindex(*v.shape)] if v.shape else [v[()]]
            hv = [P.app("H", j, (), hin + [th[0]]) for j in range(total)]
            o = 0
            W1 = [[hv[o + i * din + j] for j in range(din)] for i in range(hid)]; o += hid * din
            b1 = hv[o:o + hid]; o += hid
            slope = P.ONE
            if adaptive:
                slope = hv[o]; o += 1
            W2 = [[hv[o + i * hid + j] for j in range(hid)] for i in range(m)]; o += m * hid
            b2 = hv[o:o + m]
            if wrong:
                b1, b2 = b1[::-1], b2
                W1 = [row[::-1] for row in W1] if din > 1 else [[w + 1 for w in row] for row in W1]
            hdn = [P.unary("tanh", slope * (sum((W1[i][j] * inp[j] for j in range(din)), P.ZERO) + b1[i])) for i in range(hid)]
            out = [sum((W2[i][j] * hdn[j] for j in range(hid)), P.ZERO) + b2[i] for i in range(m)]
            if transforms:
                out = [P.app("To", j, (), inp + out + [cpar[()]]) for j in range(m)]
            return arr(lambda j: out[j[0]], (m,))
        shapes = list(hp_shapes) + [()] * (2 - len(hp_shapes))
        return dict(fn=fn, spec=spec, canary=lambda *z: spec(*z, wrong=True),
                    inputs=[Inp("th", (1,)), Inp("t", tshape), Inp("x", (max(d, 1),)), Inp("a", shapes[0]), Inp("b", shapes[1]),
                            Inp("cpar", ())])
    return EqObligation(f"C10/HYPERPINN.eval_nn/ensures[{kind},d={d},m={m},hyperparams={'/'.join(keys)}:{hp_shapes},transforms={int(transforms)}"
                        f"{'' if tshape == (1,) else ',t=' + str(tshape)}{',inner_network_with_a_scalar_leaf' if adaptive else ''}]",
                        build, ["jinns.utils._hyperpinn:HYPERPINN.eval_nn", "jinns.utils._hyperpinn:HYPERPINN._hyper_to_pinn",
                                "jinns.utils._hyperpinn:_get_param_nb", PM + "PINN.__call__"])


def create_hyper_ob(kind, d, m, hyper_arch, shared=False, slices_=None):
    """create_HYPERPINN: the hyper-network it builds maps the `hypernet_input_size` flattened hyper-parameters to exactly
    as many numbers as the inner network has parameters (first / last layer sizes rewritten, the rest of the given or
    copied architecture kept), and the wrapper it returns evaluates as HYPERPINN.eval_nn promises.
    hyper_arch: 'opaque' (eqx_list_hyper = one uninterpreted layer with deliberately wrong declared sizes) or
    'default' (eqx_list_hyper=None: a copy of the inner architecture, real Linear layers with their initial weights)"""
    din = {"ODE": 1, "statio": d, "nonstatio": 1 + d}[kind]
    hid = 2
    keys = ["a", "b"]
    hp_shapes = [(), (2,)]
    nin = 3
    slices = (slices_ or (jnp.s_[0:1], jnp.s_[-1])) if shared else None
    def build():
        from jinns.utils._hyperpinn import create_HYPERPINN
        sizes = [hid * din, hid, m * hid, m]
        total = sum(sizes)
        fac = _Factory("HY")
        res = create_HYPERPINN(jax.random.PRNGKey(3), ((eqx.nn.Linear, din, hid), (jnp.tanh,), (eqx.nn.Linear, hid, m)), _eqt(kind),
                               hyperparams=keys, hypernet_input_size=nin, dim_x=d,
                               eqx_list_hyper=((fac, 17, 23),) if hyper_arch == "opaque" else None,
                               shared_pinn_outputs=slices)
        us = res if shared else [res]
        u0 = us[0]
        if hyper_arch == "opaque":
            H = fac.made[0]
            if (H.n, H.m) != (nin + 1, total):
                raise AssertionError(f"hyper layer built with sizes ({H.n - 1}, {H.m}), expected ({nin}, {total})")
        else:
            lw = [np.asarray(l, dtype=float) for l in jax.tree_util.tree_leaves(u0.params_hyper)]
        def fn(th, t, x, a, b):
            if hyper_arch == "opaque":
                nn = jax.tree_util.tree_map(lambda leaf: th, u0.params_hyper)
            else:
                nn = u0.params_hyper
            params = Params(nn_params=nn, eq_params={"a": a, "b": b, "unused": a * 3})
            args = {"ODE": (t,), "statio": (x,), "nonstatio": (t, x)}[kind]
            return [u(*args, params) for u in us]
        def spec(th, t, x, a, b, wrong=False):
            inp = {"ODE": [t[0]], "statio": pts(x), "nonstatio": [t[0]] + pts(x)}[kind]
            hin = [a[()], b[0], b[1]]
            if hyper_arch == "opaque":
                hv = [P.app("HY0", j, (), hin + [th[0]]) for j in range(total)]
            else:
                W1h, b1h, W2h, b2h = lw
                assert W1h.shape == (hid, nin) and W2h.shape == (total, hid), (W1h.shape, W2h.shape)
                hh = [P.unary("tanh", sum((c(float(W1h[i, j])) * hin[j] for j in range(nin)), P.ZERO) + c(float(b1h[i]))) for i in range(hid)]
                hv = [sum((c(float(W2h[i, j])) * hh[j] for j in range(hid)), P.ZERO) + c(float(b2h[i])) for i in range(total)]
            o = 0
            W1 = [[hv[o + i * din + j] for j in range(din)] for i in range(hid)]; o += hid * din
            b1 = hv[o:o + hid]; o += hid
            W2 = [[hv[o + i * hid + j] for j in range(hid)] for i in range(m)]; o += m * hid
            b2 = hv[o:o + m]
            if wrong:
                b1 = b1[::-1]
            hdn = [P.unary("tanh", sum((W1[i][j] * inp[j] for j in range(din)), P.ZERO) + b1[i]) for i in range(hid)]
            out = [sum((W2[i][j] * hdn[j] for j in range(hid)), P.ZERO) + b2[i] for i in range(m)]
            if not shared:
                return [arr(lambda j: out[j[0]], (m,))]
            res_ = []
            for sl in slices:
                sel = out[sl] if isinstance(sl, slice) else [out[sl]]
                res_.append(arr(lambda j, sel=sel: sel[j[0]], (len(sel),)))
            return res_
        return dict(fn=fn, spec=spec, canary=lambda *z: spec(*z, wrong=True),
                    inputs=[Inp("th", (1,)), Inp("t", (1,)), Inp("x", (max(d, 1),)), Inp("a", ()), Inp("b", (2,))])
    stag = "" if slices_ is None else "," + "/".join(str(q) for q in slices_).replace(" ", "")
    return EqObligation(f"C10/create_HYPERPINN/ensures[{kind},d={d},m={m},hyper_architecture={hyper_arch},shared_pinn_outputs={int(shared)}{stag}]",
                        build, ["jinns.utils._hyperpinn:create_HYPERPINN", "jinns.utils._hyperpinn:HYPERPINN.__post_init__",
                                "jinns.utils._hyperpinn:HYPERPINN.eval_nn", "jinns.utils._hyperpinn:HYPERPINN._hyper_to_pinn",
                                "jinns.utils._hyperpinn:_get_param_nb", PM + "_MLP.__post_init__", PM + "_MLP.__call__"])


def obligations(tier):
    obs = []
    for kind, d, m_ in (("ODE", 0, 1), ("statio", 2, 2), ("nonstatio", 1, 2)):
        obs.append(create_hyper_ob(kind, d, m_, "opaque"))
        if kind != "ODE" or tier == "thorough":
            obs.append(create_hyper_ob(kind, d, m_, "default"))
    obs.append(create_hyper_ob("statio", 1, 2, "opaque", shared=True))
    obs.append(create_hyper_ob("statio", 1, 3, "opaque", shared=True, slices_=(jnp.s_[0], jnp.s_[1:3])))   # component 0 given as the integer 0
    for kind, d in (("ODE", 0), ("statio", 1), ("statio", 2), ("nonstatio", 1), ("nonstatio", 2)):
        tshapes = [(), (1,)] if kind == "ODE" else [(1,)]
        for tshape in tshapes:
            for m in (1, 2, 3):
                obs.append(pinn_ob(kind, d, m, tshape, None, "same", False, False))     # default transforms
                obs.append(pinn_ob(kind, d, m, tshape, None, "same", False, True))      # bare nn_params
                if tier == "thorough" or m != 3:
                    obs.append(pinn_ob(kind, d, m, tshape, None, (m,), True, False))    # opaque transforms
            obs.append(pinn_ob(kind, d, 1, tshape, None, (), True, False))              # transform returning a scalar
            obs.append(pinn_ob(kind, d, 3, tshape, jnp.s_[1:3], "same", False, False))  # output slice
            obs.append(pinn_ob(kind, d, 3, tshape, jnp.s_[0:1], (3,), True, False))
    # user networks whose raw output is a 0-d value or carries a unit leading axis: the wrapper still returns (m,)
    obs.append(pinn_ob("statio", 2, 1, (1,), None, "same", False, False, raw="scalar"))
    obs.append(pinn_ob("ODE", 0, 1, (), None, "same", False, True, raw="scalar"))
    obs.append(pinn_ob("statio", 1, 3, (1,), None, "same", False, False, raw="row"))
    obs.append(pinn_ob("nonstatio", 1, 3, (1,), jnp.s_[1:3], "same", False, False, raw="row"))
    obs.append(create_pinn_ob(True))
    obs.append(create_pinn_ob(False))
    obs.append(create_pinn_ob(True, (jnp.s_[0:2], jnp.s_[-1])))         # last component given as the integer -1
    obs.append(create_pinn_ob(True, (jnp.s_[1], jnp.s_[-2:])))
    obs.append(create_pinn_ob(True, (jnp.s_[0], jnp.s_[1:3])))
    for kind in ("statio", "nonstatio"):
        for d in ((1, 2, 3) if kind == "statio" else (2, 3)):
            # B = 1: a grid with a single point per axis keeps all its axes
            for (r, m, B) in ([(1, 1, 2), (2, 2, 2), (1, 1, 1), (1, 2, 1)] if tier == "quick" else
                              [(1, 1, 1), (1, 2, 1), (2, 3, 1), (1, 1, 2), (2, 1, 2), (2, 2, 2), (1, 3, 2)]):
                if d == 3 and r == 2 and m == 2 and tier == "quick":
                    continue
                obs.append(spinn_ob(kind, d, r, m, B))
            obs.append(spinn_ob(kind, d, 2, 2, 2 if d < 3 else 1, bare=True))
    # many separable dimensions (create_SPINN accepts up to 24): one point per axis, embedding size 2
    obs.append(spinn_ob("statio", 18, 2, 1, 1))
    obs.append(spinn_ob("nonstatio", 20 if tier == "thorough" else 19, 2, 1, 1))
    for kind, d in (("ODE", 0), ("statio", 2), ("nonstatio", 1)):
        obs.append(hyper_ob(kind, d, 1, [()], False))
        if kind == "ODE":
            obs.append(hyper_ob(kind, d, 2, [(), (2,)], False, tshape=()))      # a scalar time, as ODE batches give under vmap
        obs.append(hyper_ob(kind, d, 2, [(), (2,)], True))
        if kind == "statio":
            obs.append(hyper_ob(kind, d, 1, [()], False, adaptive=True))
        if kind == "statio":        # matrix-valued designated parameters: flattened one after the other (row-major each)
            obs.append(hyper_ob(kind, d, 1, [(2, 2), (2, 3)], False))
        obs.append(hyper_ob(kind, d, 1, [(), (2,)], False, order=["b", "a"]))     # list order differs from the dict's key order
        if tier == "thorough":
            obs.append(hyper_ob(kind, d, 2, [(2,), ()], False))
    return obs
