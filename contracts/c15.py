"""
C15 — observation and parameter loaders keep rows aligned with the user's tables (Engine A, unbounded sizes).
Under contract: DataGeneratorObservations.__post_init__ / obs_batch, DataGeneratorParameter.__post_init__ /
generate_data / param_batch, DataGeneratorObservationsMultiPINNs.__post_init__ / obs_batch.
Invariant: every entry of `indices` lies in [0, n) (it is arange(n) composed with permutations).
Postcondition of obs_batch: ONE index vector m (m[r] = indices'[c + r]) with pinn_in[r] = observed_pinn_in[m[r]],
val[r] = observed_values[m[r]] and eq_params[k][r] = observed_eq_params[k][m[r]] for every key.
generate_data: a key present in user_data gets the user table ((n,) reshaped to (n,1), (n,1) as is; other shapes raise
ValueError), any other key gets n samples of its own range.
"""
import time
import z3
from contracts.common import FnObligation
from vf import pyvc
from vf.pyvc import Executor, Rec, SArr, Key, INT32_MAX, prove, zint, zreal, perm_axioms

from vf.paths import R
SRC = [R("/repo/jinns/data/_DataGenerators.py"), R("/repo/jinns/data/_Batchs.py")]
DG = "jinns.data._DataGenerators:"
META = dict(
    trusted_base=["Engine A: Python subset semantics and jnp / lax / tree_util models of vf/pyvc.py",
                  "assumed contracts: jax.random.choice (permutation), jax.random.split, jax.random.uniform (range)", "iteration rule", "z3"],
    bounded_in={"table columns": "1..2", "observed parameter keys": "0..2", "parameter keys": "2 (one from a user table, one from a range)",
                "networks of the multi-network loader": "3 (one without observations)"},
    unbounded_in=["number of rows n", "batch size", "current index", "table contents", "number of get_batch calls (invariant)"],
    assumptions=[],
)
n, b, idx = z3.Ints("n b idx")
r_, c_ = z3.Ints("r c")


def table(name, shape):
    f = z3.Function(name, *([z3.IntSort()] * len(shape) + [z3.RealSort()]))
    return SArr(shape, lambda *k: f(*[zint(x) for x in k]), "real")


def obs_generator(cols_in=2, cols_val=1, keys=("a", "b"), pcols=1):
    ind = z3.Function("indices", z3.IntSort(), z3.IntSort())
    rec = Rec("DataGeneratorObservations", dict(
        key=Key(), obs_batch_size=b, observed_pinn_in=table("pin", (n, cols_in)), observed_values=table("val", (n, cols_val)),
        observed_eq_params={k: table("obs_" + k, (n, pcols)) for k in keys}, sharding_device=None, n=n, curr_idx=idx,
        indices=SArr((n,), lambda k: ind(zint(k)), "int")))
    return rec, ind


def Inv(i_, b_, n_):
    return z3.Or(i_ == INT32_MAX - b_ - 1, z3.And(i_ >= 0, i_ < n_, i_ % b_ == 0))


def obs_alignment(cols_in, cols_val, keys, pcols=1):
    """pcols: number of columns of every observed equation-parameter table (a vector-valued parameter per observation)"""
    name = (f"C15/DataGeneratorObservations.obs_batch/ensures.same_row_for_input_value_and_parameters[in={cols_in},val={cols_val},keys={'+'.join(keys) or '-'}"
            f"{'' if pcols == 1 else ',parameter_columns=' + str(pcols)}]")
    def run(seed):
        t0 = time.time()
        ex = Executor(SRC)
        rec, ind = obs_generator(cols_in, cols_val, keys, pcols)
        outs = [o for o in ex.call_method(rec, "obs_batch") if o.kind == "return"]
        if not outs:
            raise pyvc.Unsupported("obs_batch: no normal return")
        last = None
        for o in outs:         # one outcome per path the code distinguishes (e.g. a special case for a full batch)
            new, batch = o.value
            pi = ex.perms[0][0]
            pre = [b >= 1, b <= n, n < 2 ** 30, Inv(idx, b, n), r_ >= 0, r_ < b, c_ >= 0] + list(o.pc)
            # invariant on the index vector (range), instantiated where needed
            rng = lambda t: z3.And(ind(t) >= 0, ind(t) < n)
            newind = new.fields["indices"]
            R = z3.Or(idx == INT32_MAX - b - 1, idx + b >= n)
            idx1 = z3.If(R, 0, idx + b)
            cst = z3.If(idx1 > n - b, n - b, idx1)
            m = newind.elem(cst + r_)
            ax = perm_axioms(ex.perms[0], [cst + r_]) + [rng(cst + r_), rng(pi(cst + r_))]
            goals = [("index_in_range", z3.And(zint(m) >= 0, zint(m) < n)),
                     ("input_row", z3.Implies(c_ < cols_in, batch["pinn_in"].elem(r_, c_) == rec.fields["observed_pinn_in"].elem(m, c_))),
                     ("value_row", z3.Implies(c_ < cols_val, batch["val"].elem(r_, c_) == rec.fields["observed_values"].elem(m, c_))),
                     ("keys", z3.BoolVal(sorted(batch["eq_params"].keys()) == sorted(keys))),
                     ("shapes", z3.And(zint(batch["pinn_in"].shape[0]) == b, zint(batch["val"].shape[0]) == b))]
            for k in keys:
                bp = batch["eq_params"][k]
                goals.append((f"parameter_shape[{k}]", z3.And(z3.BoolVal(len(bp.shape) == 2), zint(bp.shape[0]) == b,
                                                             zint(bp.shape[1]) == pcols) if len(bp.shape) == 2 else z3.BoolVal(False)))
                if len(bp.shape) == 2:
                    for pc_ in range(pcols):
                        goals.append((f"parameter_row[{k},column={pc_}]", bp.elem(r_, pc_) == rec.fields["observed_eq_params"][k].elem(m, pc_)))
            goals.append(("tables_untouched", z3.BoolVal(new.fields["observed_pinn_in"] is rec.fields["observed_pinn_in"]
                                                         and new.fields["observed_values"] is rec.fields["observed_values"])))
            # canary: value taken from a different row than the input
            canary = z3.Implies(c_ < cols_val, batch["val"].elem(r_, c_) == rec.fields["observed_values"].elem(newind.elem(cst + r_ + 1), c_))
            last = finish(name, goals, pre, ex, t0, ax, canary)
            if last.get("status") != "discharged":
                return last
        return last
    return FnObligation(name, run, [DG + "DataGeneratorObservations.obs_batch"])


def finish(name, goals, pre, ex, t0, axioms=(), canary=None):
    for nm, g in goals:
        st, model = prove(g, pre, axioms=list(axioms), timeout_ms=30000)
        if st != "unsat":
            return bad(name + "." + nm, st, model)
    for nm, pc_, g in ex.obligations:
        st, model = prove(g, pre + list(pc_), axioms=list(axioms), timeout_ms=20000)
        if st != "unsat":
            return bad(name + ".side:" + nm, st, model)
    out = dict(status="discharged", backend="pyvc+z3", solver_s=time.time() - t0,
               sample=f"{ex.stmts_visited} statements executed; goals {[g[0] for g in goals]}")
    if canary is not None:
        st, _ = prove(canary, pre + [n >= 3], axioms=list(axioms), timeout_ms=20000)
        if st == "unsat":
            return dict(status="error", detail="vacuity guard: misaligned postcondition verified")
        out["canary"] = "refuted" if st == "sat" else "not-refuted"
    return out


def bad(name, st, model, native=None):
    if st == "unknown":
        return dict(status="undecided", backend="z3", detail=f"{name}: z3 unknown")
    vals = {str(d): str(model[d]) for d in model.decls() if d.arity() == 0 and "!" not in str(d)}
    nat = _safe(native_alignment) if "generate_data" not in name else (native_param("n") or native_param("n1") or native_param("bad"))
    return dict(status="violated", failure="value", backend="pyvc+z3", detail=f"{name} refuted; counter-model {vals}",
                replay=dict(native_disagrees=bool(nat), solver_model=vals, native=nat or "native loaders stayed aligned",
                            expected="every batch row comes from one original row", inputs=vals))


def itable(name, shape):
    f = z3.Function(name, *([z3.IntSort()] * (len(shape) + 1)))
    return SArr(shape, lambda *k: f(*[zint(x) for x in k]), "int")


def obs_constructor(shape_in, shape_val, int_inputs=False, sharding=False, eq_keys=("a",)):
    """the stored tables are the user's tables (row k of every stored table is row k of the user's), whatever the dtype of
    the inputs, with or without a storage sharding, for any insertion order of the observed-parameter dictionary"""
    name = (f"C15/DataGeneratorObservations.__post_init__/ensures.indices_are_arange[in_rank={len(shape_in)},val_rank={len(shape_val)}"
            f"{',integer_typed_inputs' if int_inputs else ''}{',sharding_device_given' if sharding else ''}"
            f"{'' if tuple(eq_keys) == ('a',) else ',observed_parameters=' + '/'.join(eq_keys)}]")
    def run(seed):
        t0 = time.time()
        ex = Executor(SRC)
        sh = lambda s: tuple(n if x == "n" else x for x in s)
        pin = (itable if int_inputs else table)("pin", sh(shape_in))
        user_eq = {k_: table("o" + k_, (n,)) for k_ in eq_keys}
        try:
            rec = ex.construct("DataGeneratorObservations", [Key(), b, pin, table("val", sh(shape_val)), dict(user_eq)],
                               dict(sharding_device="a-sharding") if sharding else {}, [n >= 1])
        except pyvc.PyRaise as e:
            return dict(status="violated", failure="raises", detail=f"constructor raises {e.exc_name}", replay=dict(native_disagrees=False))
        k = z3.Int("k")
        pre = [n >= 1, b >= 1, b <= n, k >= 0, k < n]
        goals = [("indices", zint(rec.fields["indices"].elem(k)) == k), ("n", zint(rec.fields["n"]) == n),
                 ("indices_extent", z3.And(z3.BoolVal(len(rec.fields["indices"].shape) == 1), zint(rec.fields["indices"].shape[0]) == n)),
                 ("table_extents", z3.And(zint(rec.fields["observed_pinn_in"].shape[0]) == n, zint(rec.fields["observed_values"].shape[0]) == n)),
                 ("input_2d", z3.BoolVal(len(rec.fields["observed_pinn_in"].shape) == 2)),
                 ("value_2d", z3.BoolVal(len(rec.fields["observed_values"].shape) == 2)),
                 ("param_2d", z3.BoolVal(all(len(v.shape) == 2 for v in rec.fields["observed_eq_params"].values()))),
                 ("first_call_reshuffles", zint(rec.fields["curr_idx"]) == INT32_MAX - b - 1),
                 ("input_content", rec.fields["observed_pinn_in"].elem(k, 0) == (pin.elem(k, 0) if len(shape_in) == 2 else pin.elem(k))),
                 ("value_content", pyvc.zreal(rec.fields["observed_values"].elem(k, 0)) ==
                  (table("val", sh(shape_val)).elem(k, 0) if len(shape_val) == 2 else table("val", sh(shape_val)).elem(k))),
                 ("parameter_keys", z3.BoolVal(sorted(rec.fields["observed_eq_params"].keys()) == sorted(eq_keys)))]
        for k_ in eq_keys:
            if k_ in rec.fields["observed_eq_params"]:
                goals.append((f"parameter_content[{k_}]", rec.fields["observed_eq_params"][k_].elem(k, 0) == user_eq[k_].elem(k)))
        return finish(name, goals, pre, ex, t0)
    return FnObligation(name, run, [DG + "DataGeneratorObservations.__post_init__"], native_fallback=lambda: _safe(native_alignment))


def obs_constructor_rejects():
    name = "C15/DataGeneratorObservations.__post_init__/raises.mismatched_row_counts"
    def run(seed):
        t0 = time.time()
        ex = Executor(SRC)
        m_ = z3.Int("m_rows")
        cls, node = ex.find_method("DataGeneratorObservations", "__post_init__")
        rec = Rec("DataGeneratorObservations", dict(key=Key(), obs_batch_size=b, observed_pinn_in=table("pin", (n, 1)),
                                                    observed_values=table("val", (m_, 1)), observed_eq_params={}, sharding_device=None))
        outs = ex.call_closure(pyvc.Closure(node, {}, ex, self_val=rec, cls=cls), [], {}, [n >= 1, m_ >= 1, n != m_])
        kinds = {o.kind for o in outs}
        ok = kinds == {"raise"} and all(o.value == "ValueError" for o in outs)
        return dict(status="discharged" if ok else "violated", backend="pyvc", failure="no-raise", solver_s=time.time() - t0,
                    detail="" if ok else f"tables with different row counts are accepted ({kinds})", replay=dict(native_disagrees=False))
    return FnObligation(name, run, [DG + "DataGeneratorObservations.__post_init__"])


def param_generate(user_shape, method="uniform", int_table=False):
    """user_shape: 'n' | 'n1' | 'bad' — shape of the user table for key 'u'; key 'r' is sampled from its range
    (uniform draw, or the regular grid lo + k (hi - lo) / n).  'u' also has a range: the table has priority."""
    name = (f"C15/DataGeneratorParameter.generate_data/ensures[user_table={user_shape}{'' if method == 'uniform' else ',method=' + method}"
            f"{',integer_valued_table' if int_table else ''}]")
    def run(seed):
        t0 = time.time()
        ex = Executor(SRC)
        shp = {"n": (n,), "n1": (n, 1), "bad": (n, 2), "short": (n - 1, 1)}[user_shape]
        ut = (itable if int_table else table)("user", shp)
        lo, hi = z3.Real("lo"), z3.Real("hi")
        pre0 = [n >= 2, b >= 1, b <= n]
        user_dict = {"u": ut}
        try:
            rec = ex.construct("DataGeneratorParameter", [{"r": Key(), "u": Key()}, n, b], dict(param_ranges={"r": (lo, hi), "u": (lo - 5, lo - 4)},
                                                                                             method=method, user_data=user_dict), pre0)
            raised = None
        except pyvc.PyRaise as e:
            raised = e.exc_name
        if user_shape in ("bad", "short"):
            ok = raised == "ValueError"
            return dict(status="discharged" if ok else "violated", backend="pyvc", solver_s=time.time() - t0, failure="no-raise",
                        detail="" if ok else f"a user table of shape {shp} is not rejected with ValueError (got {raised})",
                        replay=dict(native_disagrees=bool(native_param(user_shape)), native=native_param(user_shape) or "-", expected="ValueError"))
        if raised:
            nat = native_param(user_shape)
            return dict(status="violated", failure="raises", backend="pyvc", solver_s=time.time() - t0,
                        detail=f"a user table of the documented shape {('(n,)' if user_shape == 'n' else '(n, 1)')} is rejected with {raised}",
                        replay=dict(native_disagrees=bool(nat), native=nat or "native constructor accepted the table",
                                    expected="the table is used for that key", inputs={"user_data shape": str(shp)}))
        k = z3.Int("k")
        pre = pre0 + [k >= 0, k < n]
        pn = rec.fields["param_n_samples"]
        us = getattr(ex, "uniforms", [])
        goals = [("keys", z3.BoolVal(sorted(pn.keys()) == ["r", "u"])),
                 ("user_table_has_priority", pyvc.zreal(pn["u"].elem(k, 0)) == pyvc.zreal(ut.elem(k) if user_shape == "n" else ut.elem(k, 0))),
                 ("user_shape", z3.And(zint(pn["u"].shape[0]) == n, zint(pn["u"].shape[1]) == 1)),
                 ("sampled_shape", z3.And(zint(pn["r"].shape[0]) == n, zint(pn["r"].shape[1]) == 1)),
                 ("one_draw_for_the_sampled_key_only", z3.BoolVal(len(us) == (1 if method == "uniform" else 0))),
                 ("sampled_from_own_range", (z3.And(us[0][0] == lo, us[0][1] == hi) if us else z3.BoolVal(False)) if method == "uniform"
                  else (pyvc.zreal(pn["r"].elem(k, 0)) == lo + z3.ToReal(k) * (hi - lo) / z3.ToReal(n))),
                 ("first_call_reshuffles", z3.And(*[zint(v) == INT32_MAX - b - 1 for v in rec.fields["curr_param_idx"].values()])),
                 ("user_dict_not_modified", z3.BoolVal(sorted(user_dict.keys()) == ["u"] and user_dict["u"] is ut))]
        return finish(name, goals, pre, ex, t0)
    return FnObligation(name, run, [DG + "DataGeneratorParameter.generate_data", DG + "DataGeneratorParameter.__post_init__"])


def multi_loader():
    name = "C15/DataGeneratorObservationsMultiPINNs/ensures.one_aligned_batch_per_network_and_empty_entry_without_observations"
    def run(seed):
        t0 = time.time()
        ex = Executor(SRC)
        tabs = {u: (table("pin_" + u, (n, 1)), table("val_" + u, (n, 1))) for u in ("u", "w")}
        # the three user dictionaries have the same keys but are written in different insertion orders
        rec = ex.construct("DataGeneratorObservationsMultiPINNs", [b, {"u": tabs["u"][0], "v": None, "w": tabs["w"][0]},
                                                                 {"w": tabs["w"][1], "u": tabs["u"][1], "v": None}],
                           dict(observed_eq_params_dict={"v": {}, "w": {}, "u": {"a": table("oa", (n, 1))}}, key=Key()), [n >= 1, b >= 1, b <= n])
        gens = rec.fields["data_gen_obs"]
        if sorted(gens.keys()) != ["u", "v", "w"] or gens["v"] is not None:
            return dict(status="violated", failure="value", detail=f"per-network generators: {sorted(gens.keys())}, v -> {gens['v']}",
                        replay=dict(native_disagrees=False))
        (o,) = ex.call_method(rec, "obs_batch")
        new, batches = o.value
        pre = [b >= 1, b <= n, n < 2 ** 30, r_ >= 0, r_ < b] + list(o.pc)
        goals = [("entries", z3.BoolVal(sorted(batches.keys()) == ["u", "v", "w"])), ("empty_entry", z3.BoolVal(batches["v"] is None or batches["v"] == {})),
                 ("generators_advanced", z3.BoolVal(new.fields["data_gen_obs"]["v"] is None and isinstance(new.fields["data_gen_obs"]["u"], Rec)))]
        ax = []
        for u in ("u", "w"):
            g_new = new.fields["data_gen_obs"][u]
            m = g_new.fields["indices"].elem(0 + r_)        # first call: reshuffle, window starts at 0
            goals.append((f"first_call_window[{u}]", zint(g_new.fields["curr_idx"]) == 0))
            goals.append((f"aligned[{u}]", z3.And(batches[u]["pinn_in"].elem(r_, 0) == tabs[u][0].elem(m, 0),
                                                   batches[u]["val"].elem(r_, 0) == tabs[u][1].elem(m, 0))))
        goals.append(("own_parameters[u]", z3.BoolVal(sorted(batches["u"]["eq_params"].keys()) == ["a"] and batches["w"]["eq_params"] == {})))
        goals.append(("parameter_row[u]", batches["u"]["eq_params"]["a"].elem(r_, 0) ==
                      table("oa", (n, 1)).elem(new.fields["data_gen_obs"]["u"].fields["indices"].elem(r_), 0)))
        for pm in getattr(ex, "perms", []):             # permutation contract: range
            v = z3.Int("anyrow")
            ax.append(z3.ForAll([v], z3.Implies(z3.And(v >= 0, v < zint(pm[2])), z3.And(pm[0](v) >= 0, pm[0](v) < zint(pm[2])))))
        return finish(name, goals, pre, ex, t0, ax)
    return FnObligation(name, run, [DG + "DataGeneratorObservationsMultiPINNs.__post_init__", DG + "DataGeneratorObservationsMultiPINNs.obs_batch"])


def index_invariant():
    name = "C15/lemma/index_vector_stays_in_range"
    def run(seed):
        t0 = time.time()
        ex = Executor(SRC)
        rec, ind = obs_generator(1, 1, ())
        last = None
        for o in [o for o in ex.call_method(rec, "obs_batch") if o.kind == "return"]:
            new, _ = o.value
            k = z3.Int("k")
            pi = ex.perms[0][0]
            pre = [b >= 1, b <= n, n < 2 ** 30, Inv(idx, b, n), k >= 0, k < n] + list(o.pc)
            ax = perm_axioms(ex.perms[0], [k]) + [z3.And(ind(k) >= 0, ind(k) < n), z3.And(ind(pi(k)) >= 0, ind(pi(k)) < n)]
            goal = z3.And(zint(new.fields["indices"].elem(k)) >= 0, zint(new.fields["indices"].elem(k)) < n)
            last = finish(name, [("preserved", goal)], pre, ex, t0, ax)
            if last.get("status") != "discharged":
                return last
        return last
    return FnObligation(name, run, [DG + "DataGeneratorObservations.obs_batch"])


def _safe(f):
    try:
        return f()
    except Exception:
        return None


def native_alignment():
    import numpy as np, jax, jax.numpy as jnp
    from jinns.data._DataGenerators import DataGeneratorObservations
    nn = 7
    for bb in (3, nn, 1):           # a batch size that does not divide, the full table, single rows
        g = DataGeneratorObservations(jax.random.PRNGKey(1), bb, jnp.arange(nn, dtype=float)[:, None], 10.0 + jnp.arange(nn, dtype=float)[:, None],
                                      {"a": 20.0 + jnp.arange(nn, dtype=float)[:, None]})
        for call in range(8):
            g, bt = g.get_batch()
            i, v, a = np.asarray(bt["pinn_in"])[:, 0], np.asarray(bt["val"])[:, 0], np.asarray(bt["eq_params"]["a"])[:, 0]
            if not (np.allclose(v, i + 10) and np.allclose(a, i + 20)):
                return [f"{nn} observations, batch size {bb}, call {call}: batch rows mix different table rows: inputs {i.tolist()}, values {v.tolist()}, parameter {a.tolist()}"]
    # a vector-valued observed parameter (two columns per observation)
    tab2 = np.stack([300.0 + np.arange(nn), 400.0 + np.arange(nn)], axis=1)
    g = DataGeneratorObservations(jax.random.PRNGKey(4), 3, jnp.arange(nn, dtype=float)[:, None], 10.0 + jnp.arange(nn, dtype=float)[:, None],
                                  {"D": jnp.asarray(tab2)})
    for call in range(4):
        g, bt = g.get_batch()
        i = np.asarray(bt["pinn_in"])[:, 0].astype(int)
        d_ = np.asarray(bt["eq_params"]["D"], dtype=float)
        if d_.shape != (3, 2) or not np.allclose(d_, tab2[i]):
            return [f"observed parameter with two columns, call {call}: batch rows {i.tolist()} carry parameter values {d_.tolist()} of shape {d_.shape}, "
                    f"the table rows are {tab2[i].tolist()}"]
    # a large table (index vectors stored in narrow integer types wrap): the index store is a permutation of 0..n-1
    for nn_big in (40000, 70000):
        tbl = jnp.arange(nn_big, dtype=float)[:, None]
        gb = DataGeneratorObservations(jax.random.PRNGKey(3), nn_big // 4, tbl, tbl + 10.0)
        ind = np.sort(np.asarray(gb.indices).astype(np.int64))
        if ind.shape[0] != nn_big or ind[0] != 0 or ind[-1] != nn_big - 1 or not np.array_equal(ind, np.arange(nn_big)):
            return [f"{nn_big} observations: the index store built by the constructor is not a permutation of 0..{nn_big - 1} "
                    f"(min {int(ind.min())}, max {int(ind.max())}, {len(np.unique(ind))} distinct values)"]
    bb = 3
    # integer-typed inputs (time-step indices), real-valued measurements; two observed parameters written in non-sorted
    # order; with and without a storage sharding
    vals = 0.113 + 1.7 * np.arange(nn)
    for shard in (None, jax.sharding.SingleDeviceSharding(jax.devices()[0])):
        kw = dict(sharding_device=shard) if shard is not None else {}
        g = DataGeneratorObservations(jax.random.PRNGKey(2), bb, jnp.arange(nn, dtype=jnp.int32)[:, None], jnp.asarray(vals)[:, None],
                                      {"nu": 100.0 + jnp.arange(nn, dtype=float), "D": 200.0 + jnp.arange(nn, dtype=float)}, **kw)
        if sorted(np.asarray(g.indices).tolist()) != list(range(nn)):
            return [f"{nn} observations, batch size {bb}{', sharding_device given' if shard is not None else ''}: the index store built by the constructor is "
                    f"{np.asarray(g.indices).tolist()}, not a permutation of 0..{nn - 1}"]
        for call in range(4):
            g, bt = g.get_batch()
            i = np.asarray(bt["pinn_in"])[:, 0].astype(int)
            v = np.asarray(bt["val"], dtype=float)[:, 0]
            nu_, d_ = np.asarray(bt["eq_params"]["nu"], dtype=float)[:, 0], np.asarray(bt["eq_params"]["D"], dtype=float)[:, 0]
            if not np.allclose(v, vals[i], rtol=1e-5):
                return [f"integer-typed inputs{', sharding_device given' if shard is not None else ''}: batch values {v.tolist()} are not the "
                        f"table values {vals[i].tolist()} of rows {i.tolist()}"]
            if not (np.allclose(nu_, 100.0 + i) and np.allclose(d_, 200.0 + i)):
                return [f"observed parameters {{'nu', 'D'}}{', sharding_device given' if shard is not None else ''}: rows {i.tolist()} give "
                        f"nu={nu_.tolist()}, D={d_.tolist()} (expected 100+row, 200+row)"]
    return None


def native_param(user_shape):
    """under the current (64-bit) types and under JAX's default 32-bit types"""
    import jax
    w = _native_param(user_shape)
    if w:
        return w
    ctx = getattr(jax, "enable_x64", None)
    if ctx is not None:
        try:
            with ctx(False):
                w = _native_param(user_shape)
            if w:
                return [m + " [JAX's default 32-bit types]" for m in w]
        except Exception:
            return None
    return None


def _native_param(user_shape):
    import jax, jax.numpy as jnp
    import numpy as np
    from jinns.data._DataGenerators import DataGeneratorParameter
    nn = 6
    tab = {"n": jnp.arange(nn, dtype=float) + 100.0, "n1": jnp.arange(nn, dtype=float)[:, None] + 100.0, "bad": jnp.zeros((nn, 2)),
           "short": jnp.zeros((nn - 1, 1))}[user_shape]
    for method in ("uniform", "grid"):
        for ranges in ({"r": (0.0, 1.0)}, {"r": (0.0, 1.0), "u": (-5.0, -4.0)}):
            what = f"DataGeneratorParameter(n={nn}, param_ranges={ranges}, method={method!r}, user_data={{'u': table of shape {tuple(tab.shape)}}})"
            try:
                g = DataGeneratorParameter(jax.random.PRNGKey(0), nn, 3, dict(ranges), method, {"u": tab})
            except ValueError as e:
                if user_shape in ("bad", "short"):
                    continue
                return [f"{what} rejects the table: ValueError: {e}"]
            if user_shape in ("bad", "short"):
                return [f"{what} accepts the table"]
            got = np.asarray(g.param_n_samples["u"]).reshape(-1)
            if sorted(got.tolist()) != sorted(np.asarray(tab).reshape(-1).tolist()):
                return [f"{what}: the samples of 'u' are {got.tolist()}, not the user's table"]
            r = np.asarray(g.param_n_samples["r"]).reshape(-1)
            if r.min() < 0.0 or r.max() > 1.0:
                return [f"{what}: samples of 'r' outside its range"]
    if user_shape in ("n", "n1"):
        # an integer-valued table with entries that the default float type cannot represent is served as it is
        big = jnp.arange(nn, dtype=jnp.int32) * 2 + 16777217
        tabi = big if user_shape == "n" else big[:, None]
        g = DataGeneratorParameter(jax.random.PRNGKey(0), nn, 3, {"r": (0.0, 1.0)}, "uniform", {"u": tabi})
        got = sorted(int(v) for v in np.asarray(g.param_n_samples["u"]).reshape(-1).tolist())
        if got != sorted(int(v) for v in np.asarray(big).tolist()):
            return [f"integer table {np.asarray(big).tolist()} of shape {tuple(tabi.shape)}: stored samples are {got}"]
    return None


def obligations(tier):
    obs = [obs_alignment(2, 1, ("a", "b")), obs_alignment(1, 2, ("a",)), obs_alignment(1, 1, ()), obs_alignment(1, 1, ("a",), pcols=2), index_invariant(),
           obs_constructor(("n", 2), ("n", 1)), obs_constructor(("n",), ("n",)), obs_constructor_rejects(),
           obs_constructor(("n", 2), ("n", 1), int_inputs=True), obs_constructor(("n",), ("n", 2), int_inputs=True),
           obs_constructor(("n", 1), ("n", 1), sharding=True, eq_keys=("nu", "D")), obs_constructor(("n", 1), ("n", 1), eq_keys=("nu", "D")),
           param_generate("n"), param_generate("n1"), param_generate("bad"), param_generate("short"),
           param_generate("n", "grid"), param_generate("n1", "grid"), param_generate("bad", "grid"),
           param_generate("n", int_table=True), param_generate("n1", int_table=True), multi_loader()]
    # parameter batches are windows of batch-size genuine rows of the sample tables, also for the last window of a pass
    # over a table whose length the batch size does not divide (C09 step contract of param_batch, reported under C15)
    from contracts import c09
    for which in ("DataGeneratorParameter.param_batch[a]", "DataGeneratorParameter.param_batch[b]", "DataGeneratorObservations.obs_batch"):
        for cl in ("batch_is_window_of_store", "batch_shape"):
            o = c09.consumer_ob(which, False, cl)
            o.name = o.name.replace("C09/", "C15/batch_rows/")
            obs.append(o)
    return obs
