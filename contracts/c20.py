"""
C20 — loss evaluation and batch drawing are pure and compilation-invariant.
(1) frame obligations (vf.frame, AST of /repo re-read on every run): no function in the call cone of evaluate/__call__
    of the five losses and of get_batch of the six generators assigns anything argument-owned;
(2) mode-equivalence obligations (Engine B): the symbolic value of f, of jax.jit(f) and of the primal output of
    jax.value_and_grad(f, has_aux=True) are the same expressions, for losses (single and system, with and without
    parameter / observation parts) and for the real generators' get_batch with a symbolic store;
(3) native purity witnesses (bounded, not counted as proved): deep snapshots of the arguments around real eager / jit /
    value_and_grad calls.
"""
import functools
import copy
from contracts.common import *
from contracts.scenario import Scen, TERMS, ALLKEYS
from contracts.c13 import Sys
from contracts import c12
from vf.frame import FrameChecker
from vf import jxinterp as JI
from vf.opaque import concrete
import jinns
from jinns.data._DataGenerators import (DataGeneratorODE, CubicMeshPDEStatio, CubicMeshPDENonStatio,
                                        DataGeneratorObservations, DataGeneratorParameter,
                                        DataGeneratorObservationsMultiPINNs)

META = dict(
    trusted_base=TRUSTED_B + [
        "frame checker: library functions (jax, jax.numpy, equinox, builtins) return fresh objects; JAX arrays and "
        "equinox Modules are immutable, so only dict / list / attribute stores can modify an argument",
        "determinism: a jaxpr is a pure function of its explicit inputs (no obligation can see Python-level global state read at trace time)"],
    bounded_in={"mode equivalence": "one shape configuration per loss kind (B=2) and per generator (n=6, batch 3 / 2)"},
    unbounded_in=["frame obligations: all inputs (syntactic)", "mode equivalence: all parameter / batch / store values"],
    assumptions=[],
)
L, PD, D = "jinns.loss._LossODE:", "jinns.loss._LossPDE:", "jinns.data._DataGenerators:"
ENTRIES = [L + "LossODE.evaluate", L + "LossODE.__call__", L + "SystemLossODE.evaluate", L + "SystemLossODE.__call__",
           PD + "LossPDEStatio.evaluate", PD + "LossPDEStatio.__call__", PD + "LossPDENonStatio.evaluate",
           PD + "LossPDENonStatio.__call__", PD + "SystemLossPDE.evaluate", PD + "SystemLossPDE.__call__",
           D + "DataGeneratorODE.get_batch", D + "CubicMeshPDEStatio.get_batch", D + "CubicMeshPDENonStatio.get_batch",
           D + "DataGeneratorObservations.get_batch", D + "DataGeneratorParameter.get_batch",
           D + "DataGeneratorObservationsMultiPINNs.get_batch",
           # assembling a drawn batch (used by solve's get_batch and by the validation module) is part of drawing it
           D + "append_param_batch", D + "append_obs_batch", D + "make_cartesian_product"]


@functools.lru_cache(maxsize=1)
def _analysis():
    fc = FrameChecker()
    cone = fc.cone(ENTRIES)
    return fc, cone


def frame_ob(q):
    def run(seed):
        fc, cone = _analysis()
        if q not in fc.funcs:
            return dict(status="discharged", backend="frame", sample="function no longer exists")
        f = fc.funcs[q]
        if f.node.name in ("__init__", "__post_init__") and q not in ENTRIES:
            return dict(status="discharged", backend="frame", sample="constructor (outside the evaluate / get_batch statement)")
        if f.findings:
            ln, what, txt = f.findings[0]
            wit = native_witness_for(q, seed)
            AUG = "augmented assignment on an alias"
            if not wit and all(AUG in w for _, w, _ in f.findings):
                # `y = arg.field; y += k` only updates the argument when the field holds a mutable array *and* the statement
                # runs eagerly; the native scenarios (device and host-restored states, eager and jit) saw no change: the
                # statement is reached under a trace only (e.g. inside lax.cond), where `+=` rebinds
                return dict(status="discharged", backend="frame+native(bounded)", bounded=True,
                            sample=f"{f.path}:{ln}: `{txt}` — no argument changed in the native scenarios (host-restored states included)")
            if "module-level state" in what and not wit and all("module-level state" in w for _, w, _ in f.findings):
                # a cache keyed by everything the result depends on keeps the property: without a call history that
                # changes a result this is not a violation, only something the frame analysis cannot decide
                return dict(status="undecided", backend="frame",
                            detail=f"{f.path}:{ln}: {what}: `{txt}` — results may depend on the call history; no history that "
                                   f"changes a result was found natively")
            return dict(status="violated", failure="frame", backend="frame",
                        detail=f"{f.path}:{ln}: {what} through an argument-owned object: `{txt}`" +
                               (f" (+{len(f.findings) - 1} more)" if len(f.findings) > 1 else ""),
                        replay=dict(native_disagrees=bool(wit), native=wit or "no mutation observed in the native scenarios",
                                    expected="arguments unchanged", inputs="see contracts/c20.py native scenarios"))
        return dict(status="discharged", backend="frame", sample=f"returns {('fresh', 'argument-owned')[f.ret[0]]}; calls {len(f.calls)} contracted callees")
    return FnObligation(f"C20/frame/{q}", run, [q])


def cone_names():
    return _analysis()[1]


# ---------------------------------------------------------------------------- native witnesses (bounded)

def snap(x, depth=0):
    """structural snapshot: dict / list structure, identity and value of leaves"""
    if isinstance(x, dict):
        return ("dict", id(x), tuple((k, snap(v, depth + 1)) for k, v in x.items()))
    if isinstance(x, (list, tuple)):
        return (type(x).__name__, id(x) if isinstance(x, list) else 0, tuple(snap(v, depth + 1) for v in x))
    if isinstance(x, eqx.Module):
        import dataclasses
        return ("module", type(x).__name__, tuple((f.name, snap(getattr(x, f.name, None), depth + 1)) for f in dataclasses.fields(x)))
    if isinstance(x, (jax.Array, np.ndarray)):
        try:
            a = np.asarray(x)
        except Exception as e:          # e.g. a tracer of a finished jit trace that was stored into an argument
            return ("unreadable-array", type(x).__name__, type(e).__name__)
        return ("array", id(x), a.shape, a.tobytes() if a.dtype != object else None)
    if callable(x) or x is None or isinstance(x, (int, float, str, bool, slice)) or x is Ellipsis:
        return ("atom", repr(x) if not callable(x) else "fn")
    return ("other", type(x).__name__)


def _native_scenarios(seed):
    """(label, callable(), args_to_watch) ; every callable performs one real call in some mode"""
    out = []
    rng = np.random.default_rng(seed)
    def vals(S, extra=()):
        a = {}
        for inp in S.inputs(extra=list(extra)) if hasattr(S, "kind") and isinstance(S, Scen) else S.inputs():
            a[inp.name] = jnp.asarray(rng.uniform(0.2, 1.0, size=tuple(inp.shape)))
        return a
    for kind in ("ODE", "statio", "nonstatio"):
        S = Scen(kind, B=2, tag="w")
        a = vals(S, extra=[Inp("acol", (2, 1))])
        loss, params, batch = S.loss_batch(a, param_batch={"b": a["acol"]}, obs_eq={"a": a["acol"]}, on=c12.ON[kind])
        out.append((f"{type(loss).__name__}", loss, params, batch))
        Y = Sys(kind, 2, 2, tag="w")
        ay = vals(Y)
        lossy, pd, by = Y.build(ay, {}, tuple(Y.uk) if kind != "statio" else (), (Y.uk[0],), ())
        by = eqx.tree_at(lambda b: b.param_batch_dict, by, {"a": jnp.asarray(rng.uniform(0.2, 1.0, size=(2, 1)))},
                         is_leaf=lambda x: x is None)
        out.append((f"{type(lossy).__name__}[{kind}]", lossy, pd, by))
    return out


def native_loss_witness(seed, only=None):
    bad = []
    n = 0
    with concrete(seed):
        for label, loss, params, batch in _native_scenarios(seed):
            if only and only not in label:
                continue
            for mode in ("eager", "jit", "value_and_grad"):
                before = (snap(params), snap(batch), snap(loss))
                if mode == "eager":
                    r = loss.evaluate(params, batch)
                elif mode == "jit":
                    r = jax.jit(lambda p, b, l=loss: l.evaluate(p, b))(params, batch)
                else:
                    r = jax.value_and_grad(lambda p, b, l=loss: l.evaluate(p, b), has_aux=True)(params, batch)[0]
                after = (snap(params), snap(batch), snap(loss))
                n += 1
                if before != after:
                    which = [nm for nm, x, y in zip(("params", "batch", "loss"), before, after) if x != y]
                    bad.append(f"{label}.evaluate [{mode}] modified its argument(s) {which}")
    return bad, n


def native_assembly_witness():
    """append_param_batch / append_obs_batch on a batch that already carries such a part: the batch given is unchanged"""
    from jinns.data._DataGenerators import append_param_batch, append_obs_batch
    from jinns.data._Batchs import ODEBatch
    bad = []
    b1 = ODEBatch(temporal_batch=jnp.arange(3.0), param_batch_dict={"a": jnp.ones((3, 1))},
                  obs_batch_dict={"pinn_in": jnp.zeros((3, 1)), "val": jnp.zeros((3, 1)), "eq_params": {}})
    for fn_, part in ((append_param_batch, {"b": 2.0 * jnp.ones((3, 1))}),
                      (append_obs_batch, {"pinn_in": jnp.ones((3, 1)), "val": jnp.ones((3, 1)), "eq_params": {"a": jnp.ones((3, 1))}})):
        before = (snap(b1), snap(part))
        fn_(b1, part)
        if (snap(b1), snap(part)) != before:
            bad.append(f"{fn_.__name__} modified the batch (or the part) it was given: a batch that already had such a part is written through")
    return bad


_ORDER_SCRIPT = r"""
import sys, json
import jax, jax.numpy as jnp, equinox as eqx
from jinns.loss import LossODE, ODE
from jinns.data._Batchs import ODEBatch
from jinns.parameters import Params
class Dyn(ODE):
    def equation(self, t, u, params):
        return u(t, params) * params.eq_params["a"] + params.eq_params["b"] * t
from jinns.utils._pinn import PINN
class M(eqx.Module):
    w: jax.Array
    def __call__(self, x):
        return jnp.sin(jnp.sum(self.w * x))[None]
import warnings; warnings.simplefilter("ignore")
u = PINN(mlp=M(jnp.ones(1)), slice_solution=jnp.s_[0:1], eq_type="ODE", input_transform=lambda i, p: i,
         output_transform=lambda i, o, p: o * jnp.sum(p.eq_params["a"]) + jnp.sum(p.eq_params["b"]))
params = Params(nn_params=u.params, eq_params={"a": jnp.array(0.5), "b": jnp.array(1.5)})
loss = LossODE(u=u, dynamic_loss=Dyn(), params=params)
t = jnp.linspace(0.1, 0.9, 4)
col = lambda s: (s + jnp.arange(4.0))[:, None]
batches = {"a": ODEBatch(temporal_batch=t, param_batch_dict={"a": col(0.2)}),
           "ab": ODEBatch(temporal_batch=t, param_batch_dict={"a": col(0.2), "b": col(0.7)}),
           "b": ODEBatch(temporal_batch=t, param_batch_dict={"b": col(0.7)})}
out = []
for nm in sys.argv[1].split(","):
    try:
        out.append(float(loss.evaluate(params, batches[nm])[0]))
    except Exception as e:
        out.append("raises " + type(e).__name__)
print(json.dumps(out))
"""


def native_order_witness():
    """the value of an evaluation does not depend on what was evaluated before in the same process (fresh interpreters)"""
    import subprocess, sys, json, os
    from vf.paths import REPO as _REPO
    env = dict(os.environ, JAX_PLATFORMS="cpu", PYTHONPATH=_REPO)
    def run(order):
        r = subprocess.run([sys.executable, "-W", "ignore", "-c", _ORDER_SCRIPT, order], capture_output=True, text=True, env=env, timeout=300)
        return json.loads(r.stdout.strip().splitlines()[-1])
    try:
        alone = {nm: run(nm)[0] for nm in ("a", "ab", "b")}
        for order in ("a,ab", "ab,a", "b,ab", "ab,b", "a,b"):
            vals = run(order)
            for nm, v in zip(order.split(","), vals):
                if v != alone[nm] and not (isinstance(v, float) and isinstance(alone[nm], float) and abs(v - alone[nm]) <= 1e-9 * max(1.0, abs(v))):
                    return [f"LossODE.evaluate on a batch with parameter keys {{{nm}}} gives {v} after the evaluations [{order}] and "
                            f"{alone[nm]} in a fresh interpreter: the result depends on the call history"]
    except Exception:
        return None
    return None


def native_heterogeneity_witness():
    """two successive evaluations of an equation with a heterogeneity map that reads its own base coefficient: same
    residual both times, caller's eq_params untouched"""
    import warnings
    from jinns.loss import FisherKPP
    from jinns.parameters import Params
    from jinns.utils._pinn import PINN

    class M(eqx.Module):
        w: jax.Array
        def __call__(self, x):
            return jnp.sin(jnp.sum(self.w * x))[None]
    with warnings.catch_warnings():
        warnings.simplefilter("ignore")
        u = PINN(mlp=M(jnp.ones(2)), slice_solution=jnp.s_[0:1], eq_type="nonstatio_PDE", input_transform=lambda i, p: i,
                 output_transform=lambda i, o, p: o)
    params = Params(nn_params=u.params, eq_params={"D": jnp.array(0.3), "r": jnp.array(1.1), "g": jnp.array(0.7)})
    dyn = FisherKPP(Tmax=1.0, eq_params_heterogeneity={"r": lambda t, x, u_, p: p.eq_params["r"] * (1.0 + 0.5 * x[0])})
    before = snap(params)
    t, x = jnp.array([0.3]), jnp.array([0.4])
    r1 = np.asarray(dyn.evaluate(t, x, u, params))
    r2 = np.asarray(dyn.evaluate(t, x, u, params))
    if snap(params) != before:
        return [f"FisherKPP.evaluate with a heterogeneity map modified the caller's eq_params (r is now {float(params.eq_params['r'])}); "
                f"the same call gives {r1.tolist()} then {r2.tolist()}"]
    if not np.allclose(r1, r2):
        return [f"the same evaluation gives {r1.tolist()} then {r2.tolist()}"]
    return None


def native_witness_for(q, seed):
    try:
        if "_DynamicLoss" in q:
            w = native_heterogeneity_witness()
            if w:
                return w
        if "append_" in q or "make_cartesian_product" in q:
            return native_assembly_witness()[:3] or None
        fc, _ = _analysis()
        f = fc.funcs.get(q)
        if f is not None and any("module-level state" in w for _, w, _ in f.findings):
            return native_order_witness()
        if "_DataGenerators" in q:
            gb, _ = native_generator_witness(seed)
            if gb:
                return gb[:3]
        bad, _ = native_loss_witness(seed)
        return bad[:3] or None
    except Exception:
        return None


def native_ob():
    def run(seed):
        bad, n = native_loss_witness(seed)
        gb, gn = native_generator_witness(seed)
        bad += gb
        bad += native_assembly_witness()
        if bad:
            return dict(status="violated", failure="native-frame", backend="native", bounded=True, detail=bad[0],
                        replay=dict(native_disagrees=True, native=bad[:5], expected="arguments unchanged; same result in every mode"))
        return dict(status="discharged", backend="native(bounded)", bounded=True, sample=f"{n} loss calls and {gn} get_batch calls snapshotted")
    return FnObligation("C20/native/argument_snapshots_eager_jit_value_and_grad", run, ENTRIES)


def _generators():
    key = jax.random.PRNGKey(3)
    n = 6
    obs = dict(observed_pinn_in=jnp.arange(n, dtype=float)[:, None] / 10, observed_values=jnp.arange(n, dtype=float)[:, None] * 2.0,
               observed_eq_params={"a": jnp.arange(n, dtype=float)[:, None] + 0.5})
    return {
        "DataGeneratorODE": lambda: DataGeneratorODE(key, n, 0.0, 1.0, 3),
        "CubicMeshPDEStatio": lambda: CubicMeshPDEStatio(key=key, n=n, nb=8, omega_batch_size=3, omega_border_batch_size=2, dim=2,
                                                        min_pts=(0.0, 0.0), max_pts=(1.0, 2.0)),
        # a border batch larger than the interior batch (index arithmetic near the int32 sentinel differs between python ints and int32)
        "CubicMeshPDEStatio[border batch > interior batch + 1]": lambda: CubicMeshPDEStatio(
            key=key, n=n, nb=24, omega_batch_size=2, omega_border_batch_size=5, dim=2, min_pts=(0.0, 0.0), max_pts=(1.0, 2.0)),
        "CubicMeshPDENonStatio": lambda: CubicMeshPDENonStatio(key=key, n=n, nb=8, nt=n, omega_batch_size=3, omega_border_batch_size=2,
                                                              temporal_batch_size=2, dim=2, min_pts=(0.0, 0.0), max_pts=(1.0, 2.0),
                                                              tmin=0.0, tmax=1.0),
        "DataGeneratorObservations": lambda: DataGeneratorObservations(key, 3, **copy.deepcopy(obs)),
        "DataGeneratorParameter": lambda: DataGeneratorParameter(key, n, 3, {"a": (0.0, 1.0)}, "uniform", {"b": jnp.arange(n, dtype=float)}),
        "DataGeneratorParameter[keys dict written nu, D]": lambda: DataGeneratorParameter(
            dict(zip(("nu", "D"), jax.random.split(key))), n, 3, {"nu": (0.0, 1.0), "D": (10.0, 11.0)}, "uniform", {}),
        "DataGeneratorObservationsMultiPINNs": lambda: DataGeneratorObservationsMultiPINNs(
            3, {"u": obs["observed_pinn_in"], "v": None}, {"u": obs["observed_values"], "v": None},
            observed_eq_params_dict={"u": copy.deepcopy(obs["observed_eq_params"]), "v": {}}, key=key),
    }


def native_generator_witness(seed):
    """both with 64-bit and with JAX's default 32-bit types (index arithmetic near the int32 sentinel)"""
    bad, n = _native_generator_witness(seed)
    ctx = getattr(jax, "enable_x64", None)
    if ctx is not None:
        try:
            with ctx(False):
                b32, n32 = _native_generator_witness(seed)
            bad += [m + " [JAX's default 32-bit types]" for m in b32]
            n += n32
        except Exception:
            pass            # the witness search is best effort: its own failure is no statement about the code
    return bad, n


def _host_state(g):
    """the same generator state with its array leaves held as (writable) NumPy arrays: a state restored from a host
    checkpoint"""
    def conv(x):
        if isinstance(x, jax.Array) and not jnp.issubdtype(x.dtype, jax.dtypes.prng_key):
            return np.array(x)
        return x
    return jax.tree_util.tree_map(conv, g)


def _native_generator_witness(seed):
    bad, n = [], 0
    gens = dict(_generators())
    for nm_ in ("DataGeneratorODE", "CubicMeshPDEStatio", "CubicMeshPDENonStatio", "DataGeneratorObservations"):
        mk0 = gens[nm_]
        gens[nm_ + "[state restored from host (NumPy) arrays]"] = (lambda mk0=mk0: _host_state(mk0().get_batch()[0]))
    for name, mk in gens.items():
        g = mk()
        for step in range(4):           # across a reshuffle
            before = snap(g)
            try:
                g1, b1 = g.get_batch()
                g2, b2 = jax.jit(lambda x: x.get_batch())(g)
            except Exception as e:          # a draw that works in one mode and raises in the other is a divergence too
                bad.append(f"{name}.get_batch raises {type(e).__name__} (eager draw then the same draw under jit, call #{step}): {str(e).splitlines()[0][:160]}")
                break
            after = snap(g)
            n += 1
            if before != after:
                bad.append(f"{name}.get_batch modified the generator it was called on (call #{step})")
            def data(t):
                out = []
                for x in jax.tree_util.tree_leaves(t):
                    x = jnp.asarray(x)
                    out.append(np.asarray(jax.random.key_data(x) if jnp.issubdtype(x.dtype, jax.dtypes.prng_key) else x))
                return out
            l1, l2 = data((g1, b1)), data((g2, b2))
            same = len(l1) == len(l2) and all(np.array_equal(x, y) for x, y in zip(l1, l2))
            g3, b3 = g.get_batch()
            rep = all(np.array_equal(np.asarray(x), np.asarray(y)) for x, y in zip(jax.tree_util.tree_leaves(b1), jax.tree_util.tree_leaves(b3)))
            if not same:
                bad.append(f"{name}.get_batch differs between eager and jit (call #{step})")
            if not rep:
                bad.append(f"{name}.get_batch is not repeatable on the same generator (call #{step})")
            g = g1 if "NumPy" not in name else _host_state(g1)
    return bad, n


# ---------------------------------------------------------------------------- mode equivalence (Engine B)

PY_WEIGHTS = dict(wd=1.5, wi=2.0, wo=0.25, wn=0.5, wb=0)       # plain Python numbers, one of them the integer 0


def loss_modes(kind, system, mode, with_parts, eq_order=("a", "b"), python_weights=False, sys_form=None):
    """python_weights: the loss weights are plain Python numbers (they stay Python numbers when the loss is used eagerly or
    closed over, and become traced scalars when the loss is an argument of a jitted function) and the network has two
    observed outputs; a NaN among the border points probes that a term switched off by a zero weight is treated alike.
    eq_order: the order in which the caller wrote params.eq_params (jit rebuilds dictionaries in sorted key order, an
    eager call sees them as written: the result is the same)"""
    def build():
        if system:
            S = Sys(kind, 2, 2)
            names = S.names() + ["acol"]
            inputs = S.inputs() + [Inp("acol", (2, 1))]
            def call(a):
                loss, pd, batch = S.build(a, sys_form or {}, tuple(S.uk) if kind != "statio" else (), (S.uk[0],) if with_parts else (), ())
                if with_parts:
                    batch = put_at(lambda b: b.param_batch_dict, batch, {"a": a["acol"]})
                return loss, pd, batch
        else:
            S = Scen(kind, B=2, eq_order=eq_order, m=2 if python_weights else 1)
            extra = [Inp("acol", (2, 1))]
            names = S.names(extra=extra)
            inputs = S.inputs(extra=extra)
            def call(a):
                if python_weights:
                    a = dict(a, **PY_WEIGHTS)
                    return S.loss_batch(a, on=TERMS[kind])
                if with_parts:
                    return S.loss_batch(a, param_batch={"b": a["acol"]}, obs_eq={"a": a["acol"]}, on=c12.ON[kind])
                return S.loss_batch(a, on=[t for t in TERMS[kind] if t != "observations"])
        def eager(*args):
            loss, params, batch = call(dict(zip(names, args)))
            return loss.evaluate(params, batch)
        def variant(*args):
            loss, params, batch = call(dict(zip(names, args)))
            if mode == "jit":
                return jax.jit(lambda l, p, b: l.evaluate(p, b))(loss, params, batch)
            if mode == "jit_call":
                return jax.jit(lambda l, p, b: l(p, b))(loss, params, batch)
            (v, aux), _ = jax.value_and_grad(lambda p, l, b: l.evaluate(p, b), has_aux=True)(params, loss, batch)
            return v, aux
        def spec(*syms):
            return JI.run_symbolic(eager, tuple(syms))[0]
        out = dict(fn=variant, spec=spec, inputs=inputs)
        if python_weights:
            out["native_reference"] = eager
            if kind != "ODE":
                out["probe_nonfinite"] = ["bb"]
        return out
    nm = ("System" if system else "") + {"ODE": "LossODE", "statio": "LossPDE" if system else "LossPDEStatio",
                                         "nonstatio": "LossPDE" if system else "LossPDENonStatio"}[kind]
    return EqObligation(f"C20/modes/{nm}.evaluate[{kind},{mode}==eager,param_and_obs_parts={int(with_parts)}"
                        f"{'' if tuple(eq_order) == ('a', 'b') else ',eq_params_written_' + '/'.join(eq_order)}"
                        f"{',python_number_weights' if python_weights else ''}{',per_key_weights_written_in_reverse_order' if sys_form else ''}]", build,
                        [(L if kind == "ODE" else PD) + nm + ".evaluate"])


def generator_modes(name, calls):
    def build():
        g0 = _generators()[name]()
        for _ in range(calls):
            g0 = g0.get_batch()[0]
        stores = {"DataGeneratorODE": ["times"], "CubicMeshPDEStatio": ["omega", "omega_border"],
                  "CubicMeshPDENonStatio": ["omega", "omega_border", "times"],
                  "DataGeneratorObservations": ["observed_pinn_in", "observed_values"],
                  "DataGeneratorParameter": [], "DataGeneratorObservationsMultiPINNs": []}[name.split("[")[0]]
        inputs = [Inp(s, tuple(getattr(g0, s).shape)) for s in stores] or [Inp("dummy", ())]
        def with_store(args):
            g = g0
            for s, v in zip(stores, args):
                g = eqx.tree_at(lambda m, s=s: getattr(m, s), g, v)
            return g
        def outs(res):
            g1, b = res
            leaves = [jnp.asarray(x) for x in jax.tree_util.tree_leaves((g1, b))]
            return [x for x in leaves if jnp.issubdtype(x.dtype, jnp.floating) or jnp.issubdtype(x.dtype, jnp.integer)]
        def eager(*args):
            return outs(with_store(args).get_batch())
        def jitted(*args):
            return outs(jax.jit(lambda g: g.get_batch())(with_store(args)))
        def spec(*syms):
            return JI.run_symbolic(eager, tuple(syms))[0]
        return dict(fn=jitted, spec=spec, inputs=inputs)
    return EqObligation(f"C20/modes/{name}.get_batch[jit==eager,after_{calls}_calls]", build, [D + name.split("[")[0] + ".get_batch"])


def obligations(tier):
    obs = [frame_ob(q) for q in cone_names()]
    for kind in ("ODE", "statio", "nonstatio"):
        for system in (False, True):
            for mode in ("jit", "value_and_grad"):
                obs.append(loss_modes(kind, system, mode, True))
            obs.append(loss_modes(kind, system, "jit_call", False))
        rev = {"dyn_loss": "dict_rev", "initial_condition": "dict_rev", "observations": "dict_rev", "boundary_loss": "dict_rev"}
        obs.append(loss_modes(kind, True, "jit", True, sys_form=rev))      # weight dictionaries written in another order than the equations
        for mode in ("jit", "value_and_grad"):
            obs.append(loss_modes(kind, False, mode, True, eq_order=("b", "a")))
            obs.append(loss_modes(kind, False, mode, False, python_weights=True))
    for name in _generators():
        for calls in ((0, 2) if tier == "quick" else (0, 1, 2, 3)):
            obs.append(generator_modes(name, calls))
    obs.append(native_ob())
    # eager (python int) and jitted (int32) index arithmetic agree only inside the 32-bit range: the C09 range clause of
    # every batch function and the constructors' sentinels (C08 / C09 obligations, needed here and re-checked here)
    from contracts import c08, c09
    for which, rars in c09.CONSUMERS:
        for rar in rars:
            o = c09.consumer_ob(which, rar, "no_int32_overflow")
            o.name = o.name.replace("C09/", "C20/int32_range/")
            obs.append(o)
    obs += [c08.ctor_sentinels(cls, dim, prefix="C20/int32_range") for cls in ("CubicMeshPDEStatio", "CubicMeshPDENonStatio") for dim in (1, 2)]
    return obs
