"""
C03 — total loss == sum of its terms; unconfigured terms are exactly zero; the dynamic term is the batch mean
of the weighted sum over residual components of the squared user residual.  Under contract:
dynamic_loss_apply (PINN branch), LossODE.evaluate, LossPDEStatio.evaluate, LossPDENonStatio.evaluate (+ __call__).
The user equation is an uninterpreted residual map R(point, N, grad N, eq_params) -> R^k.
"""
import itertools
import dataclasses
from contracts.common import *
from contracts.lossutil import *
from jinns.loss import (LossODE, LossPDEStatio, LossPDENonStatio, LossWeightsODE, LossWeightsPDEStatio,
                        LossWeightsPDENonStatio)
from jinns.data._Batchs import ODEBatch, PDEStatioBatch, PDENonStatioBatch

META = dict(
    trusted_base=TRUSTED_B,
    bounded_in={"batch size B": "1..3", "residual components k": "1..3", "spatial dimension": "1..2",
                "term subsets": "all subsets of the configurable terms of each loss", "network outputs": "1..2"},
    unbounded_in=["batch contents", "weights (scalar and per-component)", "network, residual map (uninterpreted)",
                  "equation parameter values", "network parameters"],
    assumptions=[],
)
LU = "jinns.loss._loss_utils:dynamic_loss_apply"


def _terms(kind):
    return {"ODE": ["dyn_loss", "initial_condition", "observations"],
            "statio": ["dyn_loss", "norm_loss", "boundary_loss", "observations"],
            "nonstatio": ["dyn_loss", "norm_loss", "boundary_loss", "observations", "initial_condition"]}[kind]


def _all_keys(kind):
    return {"ODE": ["dyn_loss", "initial_condition", "observations"],
            "statio": ["dyn_loss", "norm_loss", "boundary_loss", "observations", "initial_condition"],
            "nonstatio": ["dyn_loss", "norm_loss", "boundary_loss", "observations", "initial_condition"]}[kind]


def _markers(tree):
    """concrete stand-ins of the same structure / shapes (the loss object is built outside any trace, as users build it)"""
    return jax.tree_util.tree_map(lambda x: np.full(np.shape(x), 7.0), tree)


class Setup:
    """one static configuration of a single-network loss.
    The loss object is constructed once, *outside* the traced function, with concrete stand-ins for the weights, the
    initial condition and the normalisation data (the way users construct a loss); the symbolic values are then put
    into the user-facing fields with eqx.tree_at (the way users re-weight an existing loss).  The terms must be those
    of the fields the loss object carries."""
    _proto = None

    def __init__(self, kind, B, k, m, wkind, on, d=1, tag="", share=None, obs_param=False, const_w=None):
        """const_w = (w, wo): plain Python numbers given to the weights object at construction and never replaced"""
        self.kind, self.B, self.k, self.m, self.wkind, self.on, self.d = kind, B, k, m, wkind, set(on), d
        self.obs_param = obs_param
        self.const_w = const_w
        self.din = {"ODE": 1, "statio": d, "nonstatio": 1 + d}[kind]
        eqt = {"ODE": "ODE", "statio": "statio_PDE", "nonstatio": "nonstatio_PDE"}[kind]
        self.S = 2
        if share is not None:       # same uninterpreted network / residual / functions, other batch size
            self.net, self.dyn, self.res, self.f_b, self.f_ic = share.net, share.dyn, share.res, share.f_b, share.f_ic
            return
        self.net = Net("N" + tag, eqt, self.din, m)
        self.dyn, self.res = make_dyn(kind, "R" + tag, self.din, m, k, ["a"])
        self.f_b = OpaqueFn("fb" + tag, [(self.din,)], (m,))
        self.f_ic = OpaqueFn("fic" + tag, [(d,)], (m,))

    def inputs(self):
        B, m, d, din = self.B, self.m, self.d, self.din
        inp = [Inp("th", (1,)), Inp("a", ()), Inp("w", (self.k,) if self.wkind == "vec" else ()),
               Inp("wo", ()), Inp("pts", (B,) if self.kind == "ODE" else (B, din))]
        inp += [Inp("u0", (m,)), Inp("t0", ())]
        inp += [Inp("obs_in", (B, din)), Inp("obs_val", (B, m)), Inp("acol", (B, 1))]
        if self.kind != "ODE":
            inp += [Inp("ns", (self.S, d)), Inp("L", (), "pos")]
        return inp

    def _build(self, a):
        kind, on = self.kind, self.on
        params = self.net.params(a["th"], {"a": a["a"]})
        dyn = self.dyn if "dyn_loss" in on else None
        if kind == "ODE":
            lw = LossWeightsODE(dyn_loss=a["w"], initial_condition=a["wo"], observations=a["wo"])
            return LossODE(u=self.net.u, dynamic_loss=dyn, loss_weights=lw, params=params,
                           initial_condition=(a["t0"], a["u0"]) if "initial_condition" in on else None)
        common = dict(u=self.net.u, dynamic_loss=dyn, params=params)
        if "norm_loss" in on:
            common.update(norm_samples=a["ns"], norm_int_length=a["L"])
        if "boundary_loss" in on:
            fb = self.f_b
            if kind == "statio":
                common.update(omega_boundary_fun=lambda x: fb(x), omega_boundary_condition="dirichlet")
            else:
                common.update(omega_boundary_fun=lambda t, x: fb(jnp.concatenate([t, x])),
                              omega_boundary_condition="dirichlet")
        if kind == "statio":
            lw = LossWeightsPDEStatio(dyn_loss=a["w"], norm_loss=a["wo"], boundary_loss=a["wo"], observations=a["wo"])
            return LossPDEStatio(loss_weights=lw, **common)
        lw = LossWeightsPDENonStatio(dyn_loss=a["w"], norm_loss=a["wo"], boundary_loss=a["wo"],
                                     observations=a["wo"], initial_condition=a["wo"])
        if "initial_condition" in on:
            fic = self.f_ic
            common.update(initial_condition_fun=lambda x: fic(x))
        return LossPDENonStatio(loss_weights=lw, **common)

    def prepare(self):
        """construct the prototype loss with concrete stand-ins (call before tracing)"""
        ex = {i.name: np.full(tuple(i.shape), 7.0) for i in self.inputs()}
        if self.const_w is not None:
            ex["w"], ex["wo"] = self.const_w
        self._proto = self._build(ex)
        return self

    def loss(self, a):
        kind, on = self.kind, self.on
        params = self.net.params(a["th"], {"a": a["a"]})
        if self._proto is None:
            raise RuntimeError("Setup.prepare() must be called in build(), outside the traced function")
        loss = self._proto
        lwf = [f.name for f in dataclasses.fields(loss.loss_weights)]
        vals = {"dyn_loss": a["w"]}
        if self.const_w is None:
            new_lw = type(loss.loss_weights)(**{f: vals.get(f, a["wo"]) for f in lwf})
            loss = put_at(lambda l: l.loss_weights, loss, new_lw)
        if kind == "ODE":
            if "initial_condition" in on:
                loss = put_at(lambda l: l.initial_condition, loss, (a["t0"], a["u0"]))
            batch = ODEBatch(temporal_batch=a["pts"])
        else:
            if "norm_loss" in on:
                loss = put_at(lambda l: (l.norm_samples, l.norm_int_length), loss, (a["ns"], a["L"]))
            border = None
            if "boundary_loss" in on:
                border = jnp.stack([a["pts"][:1], a["pts"][:1] + 1.0], axis=-1) if (self.d == 1 or kind == "nonstatio") else None
            if kind == "statio":
                batch = PDEStatioBatch(inside_batch=a["pts"], border_batch=border)
            else:
                batch = PDENonStatioBatch(times_x_inside_batch=a["pts"], times_x_border_batch=border)
        if "observations" in on:
            batch = eqx.tree_at(lambda b: b.obs_batch_dict, batch,
                                {"pinn_in": a["obs_in"], "val": a["obs_val"],
                                 "eq_params": {"a": a["acol"]} if self.obs_param else {}},
                                is_leaf=lambda x: x is None)
        return loss, params, batch

    def dyn_spec(self, s, w_scale=None, rows=None):
        n = self.net.jet(s["th"])
        rows = range(self.B) if rows is None else rows
        per = []
        for i in rows:
            pt = [s["pts"][i]] if self.kind == "ODE" else [s["pts"][i, l] for l in range(self.din)]
            r = self.res(n, pt, {"a": [s["a"][()]]})
            w = [s["w"][cc] if self.wkind == "vec" else s["w"][()] for cc in range(self.k)]
            if self.const_w is not None:
                w = [c(self.const_w[0])] * self.k
            per.append(sum((w[cc] * r[cc] * r[cc] for cc in range(self.k)), P.ZERO))
        return mean(per)


def _as_dict(names, args):
    return dict(zip(names, args))


def evaluate_ob(kind, B, k, m, wkind, on, d=1, via_call=False, obs_param=False, const_w=None):
    on = tuple(sorted(on))
    tag = f"[{kind},B={B},k={k},m={m},w={wkind},d={d},on={'+'.join(on) or 'none'}{',observed_param' if obs_param else ''}"
    tag += "]" if const_w is None else f",weights_are_python_numbers={const_w[0]!r}/{const_w[1]!r}]"
    def build():
        S = Setup(kind, B, k, m, wkind, on, d, obs_param=obs_param, const_w=const_w).prepare()
        names = [i.name for i in S.inputs()]
        off = [t for t in _all_keys(kind) if t not in on]
        def fn(*args):
            a = _as_dict(names, args)
            loss, params, batch = S.loss(a)
            total, terms = (loss(params, batch) if via_call else loss.evaluate(params, batch))
            assert sorted(terms.keys()) == sorted(_all_keys(kind)), terms.keys()
            out = {"total_minus_sum": total - sum(terms[t] for t in sorted(terms)),
                   "off": [terms[t] for t in off]}
            if "dyn_loss" in on:
                out["dyn"] = terms["dyn_loss"]
            return out
        def spec(*args, wrong=False):
            s = _as_dict(names, args)
            out = {"total_minus_sum": P.ZERO, "off": [arr(lambda _: P.ZERO, ()) for _ in off]}
            if "dyn_loss" in on:
                v = S.dyn_spec(s)
                out["dyn"] = (v * c(B) + (1 if (const_w is not None and const_w[0] == 0) else 0)) if wrong else v
            return out
        can = (lambda *a: spec(*a, wrong=True)) if ("dyn_loss" in on and B > 1) else None
        return dict(fn=fn, spec=spec, canary=can, inputs=S.inputs())
    cls = {"ODE": "jinns.loss._LossODE:LossODE.evaluate", "statio": "jinns.loss._LossPDE:LossPDEStatio.evaluate",
           "nonstatio": "jinns.loss._LossPDE:LossPDENonStatio.evaluate"}[kind]
    return EqObligation(f"C03/{cls.split(':')[1]}/ensures.total_terms_dyn{'.__call__' if via_call else ''}{tag}", build,
                        [cls, LU])


def corollary(kind, B, k, wkind, which):
    tag = f"[{kind},B={B},k={k},w={wkind}]"
    def build():
        S = Setup(kind, B, k, 1, wkind, ("dyn_loss",), 1, tag="c").prepare()
        S1 = Setup(kind, B // 2, k, 1, wkind, ("dyn_loss",), 1, share=S).prepare()
        names = [i.name for i in S.inputs()] + ["lam"]
        def dyn_of(a):
            loss, params, batch = S.loss(a)
            return loss.evaluate(params, batch)[1]["dyn_loss"]
        def fn(*args):
            a = _as_dict(names, args)
            base = dyn_of(a)
            if which == "linear_in_weight":
                return dyn_of({**a, "w": a["lam"] * a["w"]}) - a["lam"] * base
            if which == "permutation_invariant":
                return dyn_of({**a, "pts": jnp.roll(a["pts"], 1, axis=0)[::-1]}) - base
            if which == "mean_of_halves":
                h = B // 2
                def half(rows):
                    loss, params, batch = S1.loss({**a, "pts": a["pts"][rows]})
                    return loss.evaluate(params, batch)[1]["dyn_loss"]
                return base - (half(slice(0, h)) + half(slice(h, B))) / 2
        def spec(*args):
            return arr(lambda _: P.ZERO, ())
        return dict(fn=fn, spec=spec, inputs=S.inputs() + [Inp("lam", ())])
    return EqObligation(f"C03/dynamic_term/corollary.{which}{tag}", build, [LU])


def subsets(xs):
    for r in range(len(xs) + 1):
        for s in itertools.combinations(xs, r):
            yield s


def obligations(tier):
    obs = []
    for kind in ("ODE", "statio", "nonstatio"):
        terms = _terms(kind)
        # every subset of configured terms at the smallest non-degenerate size
        for on in subsets(terms):
            obs.append(evaluate_ob(kind, 2, 2, 1, "vec", on))
        # sizes / weights for the dynamic term
        sizes = [(1, 1), (3, 1), (2, 3)] if tier == "quick" else [(B, k) for B in (1, 2, 3) for k in (1, 2, 3)]
        for (B, k) in sizes:
            for wkind in ("scalar", "vec"):
                obs.append(evaluate_ob(kind, B, k, 1, wkind, ("dyn_loss",)))
        obs.append(evaluate_ob(kind, 2, 2, 2, "scalar", ("dyn_loss",)))
        obs.append(evaluate_ob(kind, 2, 1, 1, "scalar", terms, via_call=True))
        # the dynamic term uses the caller's parameters even when the observations carry observed parameters
        obs.append(evaluate_ob(kind, 2, 2, 1, "scalar", ("dyn_loss", "observations"), obs_param=True))
        if kind != "ODE":
            obs.append(evaluate_ob(kind, 2, 2, 1, "vec", ("dyn_loss",), d=2))
        # weights given as plain Python numbers when the weights object is built (linearity includes the weight 0)
        obs.append(evaluate_ob(kind, 2, 2, 1, "scalar", terms, const_w=(0, 0.5)))
        obs.append(evaluate_ob(kind, 2, 1, 1, "scalar", ("dyn_loss",), const_w=(0.0, 0)))
        obs.append(evaluate_ob(kind, 2, 2, 1, "scalar", terms, const_w=(3, 2.5)))
        for which in ("linear_in_weight", "permutation_invariant", "mean_of_halves"):
            for wkind in (("vec",) if tier == "quick" else ("scalar", "vec")):
                obs.append(corollary(kind, 2 if tier == "quick" else 4, 2, wkind, which))
    # separable networks: the dynamic term over a grid with 1, 2 or 3 axes and 1 or 2 residual components (C11 contracts)
    from contracts import c11
    for o in (c11.dynapply_ob(1, 2), c11.dynapply_axes_ob(1, 2, 2), c11.dynapply_axes_ob(3, 1, 2), c11.dynapply_axes_ob(2, 2, 2)):
        o.name = o.name.replace("C11/", "C03/").replace("equals_pointwise_over_grid", "ensures.mean_over_grid")
        obs.append(o)
    # frame: the terms are functions of (params, batch) only if evaluating leaves both unchanged — every function
    # in the call cone of the three evaluate methods that lives in jinns.loss / jinns.parameters is checked by the
    # ownership analysis of vf.frame (the C20 obligation, reported here for the functions C03 depends on)
    # "at that point with the given parameters": when the batch carries one value of a parameter per point (C12), the
    # dynamic term uses row i at point i — also when the rows are given as a flat vector
    from contracts import c12
    for kind in ("ODE", "statio", "nonstatio"):
        for o in (c12.batched(kind, ("a", "b"), 2, flat=True), c12.batched(kind, ("a",), 2), c12.batched(kind, ("a", "b"), 2, int_caller=True)):
            o.name = o.name.replace("C12/", "C03/per_point_parameters/")
            obs.append(o)
    from contracts import c20
    for q in c20.cone_names():
        if q.startswith(("jinns.parameters.", "jinns.loss._loss_utils", "jinns.loss._LossODE:LossODE.", "jinns.loss._LossPDE:LossPDEStatio.",
                         "jinns.loss._LossPDE:LossPDENonStatio.", "jinns.loss._LossPDE:_LossPDEAbstract.", "jinns.loss._LossODE:_LossODEAbstract.")):
            o = c20.frame_ob(q)
            o.name = o.name.replace("C20/frame/", "C03/frame.arguments_unchanged/")
            obs.append(o)
    return obs
