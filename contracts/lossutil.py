"""Opaque user equations / functions used to drive the real loss classes."""
from __future__ import annotations
from typing import Any
from contracts.common import *
from jinns.loss._DynamicLossAbstract import ODE, PDEStatio, PDENonStatio


def _eq_flat(params, keys):
    # scalar parameters: the equation reads "whatever the parameter holds" as one number (a whole column handed to a
    # single point then shows up as a wrong value instead of a shape error inside the uninterpreted residual)
    return [jnp.reshape(jnp.sum(jnp.asarray(params.eq_params[k], dtype=float)), (1,)) for k in keys]


class OpODE(ODE):
    """user ODE residual R(t, N(t), N'(t), eq_params) -> R^k, R uninterpreted"""
    R: Any = eqx.field(static=True, kw_only=True)
    keys: tuple = eqx.field(static=True, kw_only=True)

    def equation(self, t, u, params):
        t1 = jnp.reshape(t, (1,))
        f = lambda tt: u(tt, params)
        val = f(t1)
        jac = jax.jacfwd(f)(t1)
        return self.R(jnp.concatenate([t1, val, jac.reshape(-1)] + _eq_flat(params, self.keys)))


class OpStatio(PDEStatio):
    R: Any = eqx.field(static=True, kw_only=True)
    keys: tuple = eqx.field(static=True, kw_only=True)

    def equation(self, x, u, params):
        f = lambda xx: u(xx, params)
        val = f(x)
        jac = jax.jacfwd(f)(x)
        return self.R(jnp.concatenate([x, val, jac.reshape(-1)] + _eq_flat(params, self.keys)))


class OpNonStatio(PDENonStatio):
    R: Any = eqx.field(static=True, kw_only=True)
    keys: tuple = eqx.field(static=True, kw_only=True)

    def equation(self, t, x, u, params):
        f = lambda tx: u(tx[0:1], tx[1:], params)
        tx = jnp.concatenate([t, x])
        val = f(tx)
        jac = jax.jacfwd(f)(tx)
        return self.R(jnp.concatenate([tx, val, jac.reshape(-1)] + _eq_flat(params, self.keys)))


def make_dyn(kind, name, d_in, m, k, keys, key_sizes=None, **kw):
    """returns (dynamic loss object, residual-spec function)
    residual-spec: res(n, pt, eq) -> list of k polys, n = net.jet(theta), pt = point polys, eq = dict key -> list of polys"""
    key_sizes = key_sizes or {kk: 1 for kk in keys}
    n_in = d_in + m + m * d_in + sum(key_sizes[kk] for kk in keys)
    R = Opaque(name, n_in, k)
    cls = {"ODE": OpODE, "statio": OpStatio, "nonstatio": OpNonStatio}[kind]
    dyn = cls(R=R, keys=tuple(keys), **kw)

    def res(n, pt, eq):
        args = list(pt) + [n(j, pt) for j in range(m)] + [n(j, pt, (l,)) for j in range(m) for l in range(d_in)]
        for kk in keys:
            args += list(eq[kk])
        return [P.app(name, cc, (), args) for cc in range(k)]
    return dyn, res


def mean(xs):
    xs = list(xs)
    return sum(xs, P.ZERO) * c(1) / len(xs)
