"""
C18 — on non-finite parameters training stops and returns the last finite ones.
Under contract: _gradient_step (update of last_non_nan_params), _check_nan_in_pytree, break_fun, _one_iteration,
solve's returned tuple.  `isnan` is a predicate on the post-update parameters, which are produced by uninterpreted
loss / optimiser functions, so one predicate covers every origin of the NaN.  The step / guard / return contracts are
discharged on the real closures (as in C07); the invariant and the exit lemma are discharged by z3 over those contracts.
"""
import z3
from contracts.common import *
from contracts.solve_util import *
from contracts import c07
from jinns.utils._utils import _check_nan_in_pytree

META = dict(
    trusted_base=c07.META["trusted_base"] + [
        "NaN propagation inside arithmetic is not modelled: a NaN loss value / gradient leaf / optimiser output is "
        "represented by isnan(params') being true for the parameters it reaches"],
    bounded_in=c07.META["bounded_in"],
    unbounded_in=c07.META["unbounded_in"] + ["the iteration at which the NaN appears (invariant + exit lemma)"],
    assumptions=["the initial parameters are NaN-free (precondition of solve)"],
)
SM = "jinns.solver._solve:"


def nan_step(cfg, n_iter, i):
    """projection of the step contract on (params', last_non_nan_params')"""
    def build():
        cap, so_ = c07._capture(cfg, n_iter)
        avals, treedef, body = cap.rec["avals"], cap.rec["treedef"], cap.rec["body"]
        inputs = c07.carry_inputs(avals, i)
        def fn(*leaves):
            out = body(jax.tree_util.tree_unflatten(treedef, [jnp.asarray(i, dtype=avals[0][1])] + list(leaves[1:])))
            return out[2].params, out[2].last_non_nan_params
        def spec(*leaves, wrong=False):
            cr = jax.tree_util.tree_unflatten(treedef, list(leaves))
            nxt = c07.expected_step(cfg, n_iter, i, so_, cr)
            p1, last1 = nxt[2].params, nxt[2].last_non_nan_params
            if wrong:       # "always keep the new parameters"
                last1 = p1
            return p1, last1
        return dict(fn=fn, spec=spec, canary=lambda *z: spec(*z, wrong=True), inputs=inputs)
    return EqObligation(f"C18/_gradient_step/ensures.last_non_nan_is_ite_isnan[i={i}]" + c07.cfg_tag(cfg, n_iter), build,
                        [SM + "_gradient_step", SM + "solve._one_iteration", "jinns.utils._utils:_check_nan_in_pytree"])


def check_nan_ob(dtype=None):
    """dtype: the floating type the parameter leaves are stored in (None: float64); every inexact type can hold a NaN"""
    dt = {None: None, "float32": jnp.float32, "float16": jnp.float16, "bfloat16": jnp.bfloat16}[dtype]
    def build():
        def fn(x, y, z):
            return _check_nan_in_pytree(Params(nn_params={"w": x, "b": y}, eq_params={"k": z}))
        def spec(x, y, z, wrong=False):
            acc = P.ZERO
            leaves = [x[idx] for idx in np.ndindex(*x.shape)] + pts(y) + [z[()]]
            if wrong:
                leaves = leaves[:-1]
            for q in leaves:
                acc = P.b_or(acc, P.b_isnan(q))
            return arr(lambda _: acc, ())
        return dict(fn=fn, spec=spec, canary=lambda *q: spec(*q, wrong=True),
                    inputs=[Inp("x", (2, 2), dtype=dt), Inp("y", (2,), dtype=dt), Inp("z", (), dtype=dt)])
    return EqObligation("C18/_check_nan_in_pytree/ensures.any_isnan_of_every_leaf" + (f"[leaves stored as {dtype}]" if dtype else ""), build,
                        ["jinns.utils._utils:_check_nan_in_pytree"])


def lemma(seed):
    """Inv /\\ step-contract /\\ guard-contract => Inv' ; exit lemma.  V: abstract parameter values, nan: V -> Bool"""
    V = z3.DeclareSort("V")
    nan = z3.Function("nan", V, z3.BoolSort())
    p, last, p1, last1, p0 = z3.Consts("p last p1 last1 p0", V)
    i, n = z3.Ints("i n")
    es1 = z3.Bool("es1")
    step = last1 == z3.If(nan(p1), last, p1)                         # C18/_gradient_step contract
    cont = lambda ii, pp, es: z3.And(ii < n, z3.Not(nan(pp)), z3.Not(es))   # C07/break_fun contract
    Inv = lambda l, q: z3.And(z3.Not(nan(l)), z3.Implies(z3.Not(nan(q)), l == q))
    goals = {
        "init_establishes_invariant": z3.Implies(z3.And(z3.Not(nan(p0))), Inv(p0, p0)),
        "step_preserves_invariant": z3.Implies(z3.And(Inv(last, p), cont(i, p, False), step), Inv(last1, p1)),
        "first_nan_stops_and_returns_previous_parameters":
            z3.Implies(z3.And(Inv(last, p), cont(i, p, False), step, nan(p1)),
                       z3.And(last1 == p, z3.Not(nan(last1)), z3.Not(cont(i + 1, p1, es1)))),
        "returned_parameters_are_nan_free": z3.Implies(Inv(last, p), z3.Not(nan(last))),
        "no_nan_means_returned_equals_current": z3.Implies(z3.And(Inv(last, p), z3.Not(nan(p))), last == p),
    }
    t0 = time.time()
    for name, g in goals.items():
        s = z3.Solver()
        s.set("timeout", 10000)
        s.add(z3.Not(g))
        r = s.check()
        if r != z3.unsat:
            return dict(status="violated" if r == z3.sat else "undecided", failure="lemma", backend="z3",
                        detail=f"lemma {name}: {r} {s.model() if r == z3.sat else ''}",
                        replay={"native_disagrees": False, "solver_output": str(s.model()) if r == z3.sat else str(r)})
    # vacuity: a wrong step contract (always keep the new parameters) must break the invariant
    s = z3.Solver()
    s.add(z3.Not(z3.Implies(z3.And(Inv(last, p), cont(i, p, False), last1 == p1), Inv(last1, p1))))
    canary = "refuted" if s.check() == z3.sat else "verified"
    if canary == "verified":
        return dict(status="error", detail="vacuity guard: invariant holds for a wrong step contract")
    return dict(status="discharged", backend="z3", canary=canary, solver_s=time.time() - t0,
                sample="Inv(last,p) := ~nan(last) /\\ (~nan(p) => last = p); " + "; ".join(goals))


import time


def native_python_loop_nan():
    """the non-jitted training loop of solve (taken when `obs_batch_sharding` is given): a NaN update at iteration K of
    n_iter stops training after K, later history entries stay untouched, the parameters before K are returned — the same
    as the jitted loop on the same program"""
    import numpy as np, warnings, optax
    import equinox as eqx
    import jinns
    from jinns.parameters import Params

    class Dyn(jinns.loss.ODE):
        def equation(self, t, u, params):
            return u(t, params) - jnp.sin(3 * t)

    def nan_at(k):
        def init(p):
            return jnp.zeros((), dtype=jnp.int32)
        def update(u, st, p=None):
            bad = st == k
            return jax.tree_util.tree_map(lambda x: jnp.where(bad, jnp.nan * x, x), u), st + 1
        return optax.GradientTransformation(init, update)
    K, n_iter = 3, 8
    out = {}
    with warnings.catch_warnings():
        warnings.simplefilter("ignore")
        for mode in ("jitted", "python_loop"):
            u = jinns.utils.create_PINN(jax.random.PRNGKey(0), ((eqx.nn.Linear, 1, 4), (jnp.tanh,), (eqx.nn.Linear, 4, 1)), "ODE")
            params = Params(nn_params=u.init_params(), eq_params={})
            loss = jinns.loss.LossODE(u=u, dynamic_loss=Dyn(), params=params,
                                      loss_weights=jinns.loss.LossWeightsODE(dyn_loss=1.0, observations=1.0))
            g = jinns.data.DataGeneratorODE(jax.random.PRNGKey(1), 12, 0.0, 1.0, 4)
            tab = jnp.linspace(0.0, 1.0, 8)[:, None]
            shard = jax.sharding.SingleDeviceSharding(jax.devices()[0])
            kw = dict(sharding_device=shard) if mode == "python_loop" else {}
            og = jinns.data.DataGeneratorObservations(jax.random.PRNGKey(2), 4, tab, jnp.sin(3 * tab), **kw)
            extra = dict(obs_batch_sharding=shard) if mode == "python_loop" else {}
            r = jinns.solve(n_iter=n_iter, init_params=params, data=g, loss=loss, optimizer=optax.chain(optax.sgd(1e-2), nan_at(K)),
                            obs_data=og, verbose=False, **extra)
            out[mode] = (np.asarray(r[1]), jax.tree_util.tree_leaves(r[0]))
    hj, hp = out["jitted"][0], out["python_loop"][0]
    if not np.allclose(hj, hp, equal_nan=True, rtol=1e-5, atol=1e-7):
        return [f"NaN update at iteration {K} of {n_iter} with obs_batch_sharding (non-jitted loop): loss history {np.round(hp, 4).tolist()}, "
                f"the jitted loop on the same program gives {np.round(hj, 4).tolist()} (entries after the failing iteration must stay untouched)"]
    if any(np.isnan(np.asarray(x)).any() for x in out["python_loop"][1]) or not all(
            np.allclose(np.asarray(a), np.asarray(b), rtol=1e-5, atol=1e-7) for a, b in zip(out["jitted"][1], out["python_loop"][1])):
        return ["NaN update with obs_batch_sharding (non-jitted loop): the returned parameters are not those held before the failing iteration"]
    return None


def python_loop_ob():
    name = "C18/solve/ensures.stop_and_untouched_tail[non_jitted_loop(obs_batch_sharding),bounded]"
    def run(seed):
        t0 = time.time()
        try:
            wit = native_python_loop_nan()
        except Exception as e:
            return dict(status="undecided", backend="native(bounded)", bounded=True, solver_s=time.time() - t0,
                        detail="native monitor failed: " + repr(e)[:300], replay=dict(native_disagrees=False))
        if wit:
            return dict(status="violated", failure="value", backend="native(bounded)", bounded=True, solver_s=time.time() - t0, detail=wit[0],
                        replay=dict(native_disagrees=True, native=wit[0], inputs=dict(n_iter=8, nan_at_iteration=3),
                                    expected="the histories and parameters of the jitted loop on the same program"))
        return dict(status="discharged", backend="native(bounded)", bounded=True, solver_s=time.time() - t0,
                    sample="one program: NaN update at iteration 3 of 8, jitted loop vs non-jitted loop", replay=dict(native_disagrees=False))
    return FnObligation(name, run, [SM + "solve", SM + "_get_break_fun.break_fun"])


def obligations(tier):
    obs = [check_nan_ob(), check_nan_ob("float32"), check_nan_ob("float16"), check_nan_ob("bfloat16")]
    n_iters = (3,) if tier == "quick" else (1, 2, 3, 5)
    cfgs = c07.configs(tier)
    for cfg in (cfgs[0], cfgs[1], cfgs[2]):
        for n_iter in n_iters:
            for i in range(n_iter):
                obs.append(nan_step(cfg, n_iter, i))
    # guard and returned tuple: the C07 obligations, re-run here because the lemma depends on them
    for n_iter in n_iters:
        for i in range(n_iter + 1):
            g = c07.guard(cfgs[0], n_iter, i)
            g.name = g.name.replace("C07/", "C18/")
            obs.append(g)
        r = c07.init_return(cfgs[0], n_iter)
        r.name = r.name.replace("C07/", "C18/")
        obs.append(r)
    # "histories up to and including the failing iteration are those of the reference loop": the full step (loss and
    # tracked-parameter histories included, NaN entries included) with tracked parameters — the C07 step contract
    for i in range(n_iters[0]):
        o = c07.step(cfgs[3], n_iters[0], i)
        o.name = o.name.replace("C07/_one_iteration/ensures.reference_step", "C18/_one_iteration/ensures.histories_are_the_reference_loop's")
        obs.append(o)
    # with a refining generator: refinement hands the parameters back untouched (a NaN stays a NaN for the stop test)
    from contracts import c16
    for kind in ("ODE", "statio", "nonstatio"):
        o = c16.ob_trigger(kind)
        o.name = o.name.replace("C16/", "C18/requires.refinement_returns_parameters_unchanged/")
        obs.append(o)
    for i in range(n_iters[0]):
        o = c07.step(c07.rar_config(), n_iters[0], i)
        o.name = o.name.replace("C07/", "C18/")
        obs.append(o)
    obs.append(FnObligation("C18/lemma/invariant_and_exit", lemma, [SM + "solve"]))
    # the step / guard contracts above are those of the loop body whichever loop runs it; that the non-jitted loop (taken
    # with obs_batch_sharding) hands the *current* carry to the guard is checked natively (bounded)
    obs.append(python_loop_ob())
    return obs
