"""
C06 — derivative keys route each term's gradient to exactly the selected parameter groups.
Under contract: _set_derivatives (Params and ParamsDict branches), _get_masked_parameters,
DerivativeKeys{ODE,PDEStatio,PDENonStatio}.__post_init__/from_str and evaluate of the three single losses.
One obligation covers all 2^(terms x groups) mask assignments at once: the masks are symbolic (idempotent)
Booleans.  The expected gradient is  sum_T mask[T][g] * d(spec_T)/dg  with spec_T the C03/C04/C05 postcondition
of term T, differentiated symbolically (chain rule through the jet atoms).
"""
import itertools
from contracts.common import *
from contracts.scenario import *
from jinns.parameters._derivative_keys import _get_masked_parameters, _set_derivatives

META = dict(
    trusted_base=TRUSTED_B + ["symbolic differentiation of the term specifications (vf.poly.diff, chain rule through jet atoms)"],
    bounded_in={"batch size": "2", "parameter groups": "network parameters + 2 equation parameters (one used by network and "
                "residual, one by the residual only)", "mask-builder key sets": "0..3 equation-parameter keys (bounded, exhaustive)"},
    unbounded_in=["all assignments of the (term, group) masks (symbolic Booleans)", "networks, residuals, batches, weights"],
    assumptions=[],
)
DK = "jinns.parameters._derivative_keys:"


def routing(kind, group, obs_param=False, mask_order=("a", "b")):
    def build():
        S = Scen(kind, B=2)
        terms = TERMS[kind]
        extra = [Inp("oa", (2, 1))] if obs_param else []
        names = S.names(mask_shape=(len(terms), 3), extra=extra)
        gi = {"th": 0, "a": 1, "b": 2}[group]
        def total(th, a_, b_, args):
            a = dict(zip(names, args)); a.update(th=th, a=a_, b=b_)
            loss, params, batch = S.loss_batch(a, derivative_keys=S.dkeys(a["mk"], eq_order=mask_order),
                                               obs_eq={"a": a["oa"]} if obs_param else None)
            return loss.evaluate(params, batch)[0]
        def fn(*args):
            a = dict(zip(names, args))
            g = jax.grad(total, argnums=gi)(a["th"], a["a"], a["b"], args)
            return jnp.reshape(g, ())
        def spec(*args, wrong=False):
            s = dict(zip(names, args))
            sp = S.term_specs(s, a_obs=[s["oa"][i, 0] for i in range(2)] if obs_param else None)
            var = {"th": s["th"][0], "a": s["a"][()], "b": s["b"][()]}[group]
            tot = P.ZERO
            for i, t in enumerate(terms):
                m = s["mk"][(i + 1) % len(terms), gi] if wrong else s["mk"][i, gi]
                tot = tot + m * P.diff(sp[t], var)
            return arr(lambda _: tot, ())
        return dict(fn=fn, spec=spec, canary=lambda *a: spec(*a, wrong=True), inputs=S.inputs(mask_shape=(len(terms), 3), extra=extra),
                    timeout_ms=20000)
    cls = {"ODE": "jinns.loss._LossODE:LossODE.evaluate", "statio": "jinns.loss._LossPDE:LossPDEStatio.evaluate",
           "nonstatio": "jinns.loss._LossPDE:LossPDENonStatio.evaluate"}[kind]
    return EqObligation(f"C06/{cls.split(':')[1]}/ensures.gradient_routing[{kind},group={group}{',observed_a' if obs_param else ''}"
                        f"{'' if mask_order == ('a', 'b') else ',mask_dict_written_' + '/'.join(mask_order)}]", build,
                        [cls, DK + "_set_derivatives"])


def value_independence(kind):
    def build():
        S = Scen(kind, B=2)
        terms = TERMS[kind]
        names = S.names(mask_shape=(len(terms), 3))
        def fn(*args):
            a = dict(zip(names, args))
            loss, params, batch = S.loss_batch(a, derivative_keys=S.dkeys(a["mk"]))
            tot, ts = loss.evaluate(params, batch)
            return [tot] + [ts[t] for t in ALLKEYS[kind]]
        def spec(*args, wrong=False):
            s = dict(zip(names, args))
            sp = S.term_specs(s)
            vals = [sp[t] for t in ALLKEYS[kind]]
            if wrong:
                vals[0] = vals[0] * s["mk"][0, 0]
            return [arr(lambda _: sum(vals, P.ZERO), ())] + [arr(lambda _, v=v: v, ()) for v in vals]
        return dict(fn=fn, spec=spec, canary=lambda *a: spec(*a, wrong=True), inputs=S.inputs(mask_shape=(len(terms), 3)))
    return EqObligation(f"C06/evaluate/ensures.values_independent_of_masks[{kind}]", build, [DK + "_set_derivatives"])


def paramsdict_routing(group):
    """_set_derivatives on a ParamsDict (as used for the dynamic part of system losses)"""
    def build():
        F = Opaque("G", 4, 1)
        def fn(t1, t2, a, mk):
            def f(t1, t2, a):
                pd = ParamsDict(nn_params={"u": t1, "v": t2}, eq_params={"a": a})
                dk = ParamsDict(nn_params=mk[0], eq_params={"a": mk[1]})
                q = _set_derivatives(pd, dk)
                return F(jnp.concatenate([q.nn_params["u"], q.nn_params["v"], jnp.reshape(q.eq_params["a"], (1,)), jnp.ones((1,))]))[0]
            return jnp.reshape(jax.grad(f, argnums={"t1": 0, "t2": 1, "a": 2}[group])(t1, t2, a), ())
        def spec(t1, t2, a, mk, wrong=False):
            args = [t1[0], t2[0], a[()], c(1)]
            li = {"t1": 0, "t2": 1, "a": 2}[group]
            m = mk[0] if group in ("t1", "t2") else mk[1]
            if wrong:
                m = mk[1] if group in ("t1", "t2") else mk[0]
            return arr(lambda _: m * P.app("G", 0, (li,), args), ())
        return dict(fn=fn, spec=spec, canary=lambda *x: spec(*x, wrong=True),
                    inputs=[Inp("t1", (1,)), Inp("t2", (1,)), Inp("a", ()), Inp("mk", (2,), "bool")])
    return EqObligation(f"C06/_set_derivatives/ensures.ParamsDict[group={group}]", build, [DK + "_set_derivatives"])


def nested_entry_routing(group):
    """_set_derivatives on a Params whose eq_params has an entry that is itself a tree ({"growth": {"r", "K"}, "c"}):
    every leaf has its own flag"""
    def build():
        F = Opaque("Gn", 5, 1)
        def fn(th, r, K, cc, mk):
            def f(th, r, K, cc):
                p = Params(nn_params=th, eq_params={"growth": {"r": r, "K": K}, "c": cc})
                dk = Params(nn_params=mk[0], eq_params={"growth": {"r": mk[1], "K": mk[2]}, "c": mk[3]})
                q = _set_derivatives(p, dk)
                return F(jnp.concatenate([q.nn_params, jnp.reshape(q.eq_params["growth"]["r"], (1,)), jnp.reshape(q.eq_params["growth"]["K"], (1,)),
                                          jnp.reshape(q.eq_params["c"], (1,)), jnp.ones((1,))]))[0]
            return jnp.reshape(jax.grad(f, argnums={"th": 0, "r": 1, "K": 2, "c": 3}[group])(th, r, K, cc), ())
        def spec(th, r, K, cc, mk, wrong=False):
            args = [th[0], r[()], K[()], cc[()], c(1)]
            li = {"th": 0, "r": 1, "K": 2, "c": 3}[group]
            m = mk[li] if not wrong else mk[(li + 1) % 4]
            return arr(lambda _: m * P.app("Gn", 0, (li,), args), ())
        return dict(fn=fn, spec=spec, canary=lambda *x: spec(*x, wrong=True),
                    inputs=[Inp("th", (1,)), Inp("r", ()), Inp("K", ()), Inp("cc", ()), Inp("mk", (4,), "bool")])
    return EqObligation(f"C06/_set_derivatives/ensures.Params_with_a_nested_eq_params_entry[group={group}]", build, [DK + "_set_derivatives"])


def hyper_routing():
    """a hyper-network wrapper: the network output depends on the designated equation parameter through the generated
    weights; a term whose keys select that parameter contributes its full derivative (through the network), a term whose
    keys do not contributes zero.  ODE loss, initial-condition term, symbolic flag."""
    from jinns.utils._hyperpinn import HYPERPINN
    from jinns.utils._pinn import _MLP
    from jinns.data._Batchs import ODEBatch
    def build():
        hid = 2
        inner = _MLP(key=jax.random.PRNGKey(1), eqx_list=((eqx.nn.Linear, 1, hid), (jnp.tanh,), (eqx.nn.Linear, hid, 1)))
        total = hid + hid + hid + 1
        H = Opaque("HR", 2, total)
        u = HYPERPINN(mlp=inner, hyper_mlp=OpaqueMLP(theta=jnp.zeros((1,)), F=H), slice_solution=jnp.s_[0:1], eq_type="ODE",
                      input_transform=ident_in, output_transform=ident_out, hyperparams=["a"], hypernet_input_size=1)
        def fn(th, a_, t0, u0, mk):
            def total_(a_v):
                nn = eqx.tree_at(lambda z: z.theta, u.params_hyper, th)
                params = Params(nn_params=nn, eq_params={"a": a_v})
                off = Params(nn_params=False, eq_params={"a": False})
                sel = Params(nn_params=False, eq_params={"a": mk[0]})
                loss = mk_loss(LossODE, u=u, dynamic_loss=None, initial_condition=(t0, u0),
                               derivative_keys=DerivativeKeysODE(dyn_loss=off, initial_condition=sel, observations=off),
                               loss_weights=LossWeightsODE(dyn_loss=0.0, initial_condition=1.0, observations=0.0))
                return loss.evaluate(params, ODEBatch(temporal_batch=jnp.zeros((1,))))[0]
            return jnp.reshape(jax.grad(total_)(a_), ())
        def spec(th, a_, t0, u0, mk, wrong=False):
            A = a_[()]
            hv = [P.app("HR", j, (), [A, th[0]]) for j in range(total)]
            W1 = [hv[0], hv[1]]; b1 = [hv[2], hv[3]]; W2 = [hv[4], hv[5]]; b2 = hv[6]
            hdn = [P.unary("tanh", W1[i] * t0[()] + b1[i]) for i in range(hid)]
            out = W2[0] * hdn[0] + W2[1] * hdn[1] + b2
            term = (out - u0[0]) ** 2
            flag = mk[0] if not wrong else P.ONE - mk[0]
            return arr(lambda _: flag * P.diff(term, A), ())
        return dict(fn=fn, spec=spec, canary=lambda *z: spec(*z, wrong=True),
                    inputs=[Inp("th", (1,)), Inp("a", ()), Inp("t0", ()), Inp("u0", (1,)), Inp("mk", (1,), "bool")])
    return EqObligation("C06/LossODE.evaluate/ensures.gradient_routing_through_a_hyper_network[initial_condition,group=a]", build,
                        ["jinns.loss._LossODE:LossODE.evaluate", DK + "_set_derivatives", "jinns.utils._hyperpinn:HYPERPINN.eval_nn"])


def system_routing(kind, masks, group):
    """per-unknown derivative keys of a system loss: masks[(unknown, term)] -> bool (network parameters of that unknown)"""
    from contracts.c13 import Sys
    from jinns.parameters import DerivativeKeysODE, DerivativeKeysPDENonStatio
    cterms = ["initial_condition", "observations"] if kind == "ODE" else ["initial_condition", "observations", "boundary_loss"]
    def build():
        S = Sys(kind, 2, 2)
        names = S.names()
        gi = S.uk.index(group)
        def dk(u):
            def tree(flag):
                return Params(nn_params=flag, eq_params={"a": False})
            kw = {t: tree(masks[(u, t)]) for t in cterms}
            kw["dyn_loss"] = tree(True)
            if kind != "ODE":
                kw["norm_loss"] = tree(True)
                return DerivativeKeysPDENonStatio(**kw)
            return DerivativeKeysODE(**kw)
        def fn(*args):
            a0 = dict(zip(names, args))
            def total(th_u):
                a = dict(a0)
                a["th"] = a0["th"].at[gi].set(th_u)
                loss, pd, batch = S._build(a, {}, tuple(S.uk), tuple(S.uk), tuple(S.uk) if kind != "ODE" else (),
                                           derivative_keys_dict={u: dk(u) for u in S.uk})
                loss = S.symbolic_weights(loss, a)
                return loss.evaluate(pd, batch)[0]
            return jax.grad(total)(a0["th"][gi])
        def spec(*args, wrong=False):
            s_ = dict(zip(names, args))
            var = s_["th"][gi, 0]
            on = tuple(S.uk)
            full = S.spec(s_, {}, on, on, on if kind != "ODE" else ())
            tot = P.diff(full["dyn_loss"], var)
            for t in cterms:
                # contribution of unknown `group` only (the other unknown's terms do not depend on this theta)
                m = masks[(group if not wrong else [u for u in S.uk if u != group][0], t)]
                if m:
                    tot = tot + P.diff(full[t], var)
            return arr(lambda _: tot, (1,))
        return dict(fn=fn, spec=spec, canary=None, inputs=S.inputs(), timeout_ms=20000)
    mdesc = ",".join(f"{u}.{t[:3]}={int(v)}" for (u, t), v in sorted(masks.items()))
    mod = "jinns.loss._LossODE:SystemLossODE" if kind == "ODE" else "jinns.loss._LossPDE:SystemLossPDE"
    return EqObligation(f"C06/{mod.split(':')[1]}/ensures.per_unknown_gradient_routing[{kind},d/dtheta_{group},{mdesc}]", build,
                        [mod + ".__post_init__", mod + ".evaluate", DK + "_set_derivatives"])


def system_eq_param_routing(kind, param_batch=False):
    """param_batch: the batch also carries per-sample values of another equation parameter ('nu'): the dynamic part still
    keeps its default keys for the unbatched parameter.
    per-unknown keys that select an *equation parameter* for a constraint term, with networks whose output depends on
    that parameter: d total / d a is the sum of the selected constraint terms' derivatives only (the dynamic part keeps its
    own, default, keys)"""
    from contracts.c13 import SysODE, SysStatio, SysNonStatio
    from jinns.loss import SystemLossODE, SystemLossPDE, LossWeightsODEDict, LossWeightsPDEDict
    from jinns.data._Batchs import ODEBatch, PDEStatioBatch, PDENonStatioBatch
    def build():
        dp = {"ODE": 1, "statio": 1, "nonstatio": 2}[kind]
        eqt = {"ODE": "ODE", "statio": "statio_PDE", "nonstatio": "nonstatio_PDE"}[kind]
        uk = ["u", "v"]
        scale = lambda i, o, p: o * p.eq_params["a"]
        nets = {k_: Net(f"E{k_}", eqt, dp, 1, output_transform=scale) for k_ in uk}
        cls = {"ODE": SysODE, "statio": SysStatio, "nonstatio": SysNonStatio}[kind]
        R = Opaque("RE", dp + 2 * (1 + dp) + 1, 1)
        dyn = {"e1": cls(R=R, ukeys=("u", "v"))}
        fb = {k_: OpaqueFn(f"eb{k_}", [(dp,)], (1,)) for k_ in uk}
        W = 3.0
        def keys_for(k_):
            more = {"nu": False} if param_batch else {}
            sel = Params(nn_params=False, eq_params={"a": k_ == "u", **more})        # u's constraint terms select the parameter a only
            off = Params(nn_params=False, eq_params={"a": False, **more})
            if kind == "ODE":
                return DerivativeKeysODE(dyn_loss=off, initial_condition=sel, observations=off)
            return DerivativeKeysPDENonStatio(dyn_loss=off, boundary_loss=sel, observations=off, norm_loss=off, initial_condition=off)
        def total(a_, th, pts_, t0, u0, bb):
            eqp = {"a": a_, "nu": jnp.ones(())} if param_batch else {"a": a_}
            pd = ParamsDict(nn_params={k_: nets[k_].nn_params(th[i]) for i, k_ in enumerate(uk)}, eq_params=eqp)
            kw = dict(u_dict={k_: nets[k_].u for k_ in uk}, dynamic_loss_dict=dyn, params_dict=pd,
                      derivative_keys_dict={k_: keys_for(k_) for k_ in uk})
            with jax.ensure_compile_time_eval():
                if kind == "ODE":
                    loss = SystemLossODE(loss_weights=LossWeightsODEDict(dyn_loss=1.0, initial_condition=W), **kw,
                                         initial_condition_dict={k_: (0.5, np.zeros((1,))) for k_ in uk})
                else:
                    bf = (lambda k_: (lambda x: fb[k_](x))) if kind == "statio" else (lambda k_: (lambda t, x: fb[k_](jnp.concatenate([t, x]))))
                    loss = SystemLossPDE(loss_weights=LossWeightsPDEDict(dyn_loss=1.0, boundary_loss=W), **kw,
                                         omega_boundary_fun_dict={k_: bf(k_) for k_ in uk},
                                         omega_boundary_condition_dict={k_: "dirichlet" for k_ in uk})
            if kind == "ODE":
                loss = put_at(lambda l: [l.u_constraints_dict[k_].initial_condition for k_ in uk], loss, [(t0, u0[i]) for i in range(2)])
                batch = ODEBatch(temporal_batch=pts_)
            elif kind == "statio":
                batch = PDEStatioBatch(inside_batch=pts_, border_batch=bb)
            else:
                batch = PDENonStatioBatch(times_x_inside_batch=pts_, times_x_border_batch=bb)
            if param_batch:
                batch = put_at(lambda b: b.param_batch_dict, batch, {"nu": jnp.ones((2, 1))})
            return loss.evaluate(pd, batch)[0]
        def fn(a_, th, pts_, t0, u0, bb):
            return jax.grad(total)(a_, th, pts_, t0, u0, bb)
        def spec(a_, th, pts_, t0, u0, bb, wrong=False):
            n = nets["u"].jet(th[0])
            A = a_[()]
            if kind == "ODE":
                term = c(W) * (A * n(0, [t0[()]]) - u0[0, 0]) ** 2
            else:
                term = P.ZERO
                rows_ = 2 if param_batch else 1
                for f in range(2):
                    for rw in range(rows_):
                        pt = [bb[rw, l, f] for l in range(dp)]
                        term = term + c(W) * (A * n(0, pt) - P.app(fb["u"].name, 0, (), pt)) ** 2 * c(1) / rows_
            return arr(lambda _: P.diff(term, A) * (2 if wrong else 1), ())
        B_ = 2
        return dict(fn=fn, spec=spec, canary=lambda *z: spec(*z, wrong=True),
                    inputs=[Inp("a", ()), Inp("th", (2, 1)), Inp("pts", (B_,) if kind == "ODE" else (B_, dp)), Inp("t0", ()), Inp("u0", (2, 1)),
                            Inp("bb", (2 if param_batch else 1, dp, 2))])
    mod = "jinns.loss._LossODE:SystemLossODE" if kind == "ODE" else "jinns.loss._LossPDE:SystemLossPDE"
    return EqObligation(f"C06/{mod.split(':')[1]}/ensures.per_unknown_routing_to_an_equation_parameter[{kind}{',with_a_parameter_batch' if param_batch else ''}]", build,
                        [mod + ".evaluate", "jinns.loss._loss_utils:constraints_system_loss_apply", DK + "_set_derivatives"])


def singular_sensitivity(seed):
    """bounded, native: a parameter that no key selects receives *exactly* zero gradient, also at a point where the term's
    sensitivity to it is infinite (sqrt at 0, a norm at the origin): the mask removes the dependence, it does not multiply
    a non-finite cotangent by zero"""
    import warnings
    from jinns.loss import LossODE, ODE, LossWeightsODE
    from jinns.data._Batchs import ODEBatch
    from jinns.parameters import DerivativeKeysODE
    from jinns.utils._pinn import PINN

    class Dyn(ODE):
        def equation(self, t, u, params):
            k, w = params.eq_params["k"], params.eq_params["w"]
            return jax.grad(lambda tt: u(tt, params)[0])(t)[None] + (jnp.sqrt(k) + jnp.linalg.norm(w)) * u(t, params)

    class M(eqx.Module):
        w: jax.Array
        def __call__(self, x):
            return jnp.tanh(jnp.sum(self.w * x))[None]
    with warnings.catch_warnings():
        warnings.simplefilter("ignore")
        u = PINN(mlp=M(jnp.ones(1)), slice_solution=jnp.s_[0:1], eq_type="ODE", input_transform=lambda i, p: i, output_transform=lambda i, o, p: o)
        params = Params(nn_params=u.params, eq_params={"k": jnp.array(0.0), "w": jnp.zeros(2)})
        bad = []
        forms = {"default": DerivativeKeysODE(params=params),
                 "from_str": DerivativeKeysODE.from_str(params=params, dyn_loss="nn_params", initial_condition="nn_params", observations="nn_params"),
                 "boolean tree": DerivativeKeysODE(dyn_loss=Params(nn_params=True, eq_params={"k": False, "w": False}), params=params)}
        for nm, dk in forms.items():
            loss = LossODE(u=u, dynamic_loss=Dyn(), derivative_keys=dk, initial_condition=(0.0, jnp.array([1.0])),
                           loss_weights=LossWeightsODE(dyn_loss=1.0, initial_condition=1.0))
            batch = ODEBatch(temporal_batch=jnp.linspace(0.1, 0.9, 4))
            for mode in ("eager", "jit"):
                f = (lambda p: loss.evaluate(p, batch)[0])
                g = (jax.jit(jax.grad(f)) if mode == "jit" else jax.grad(f))(params)
                gk, gw = np.asarray(g.eq_params["k"]), np.asarray(g.eq_params["w"])
                if not (np.all(gk == 0.0) and np.all(gw == 0.0)):
                    bad.append(f"keys given as {nm} ({mode}): d total / d k = {gk.tolist()}, d total / d w = {gw.tolist()} at k = 0, w = 0 "
                               f"(neither is selected by any term: both must be exactly 0)")
    if bad:
        return dict(status="violated", failure="non-finite sensitivity", backend="native(bounded)", bounded=True, detail=bad[0],
                    replay=dict(native_disagrees=True, native=bad[:4], expected="exactly zero",
                                inputs="LossODE, du/dt + (sqrt(k) + |w|) u, k = 0, w = (0, 0), default derivative keys"))
    return dict(status="discharged", backend="native(bounded)", bounded=True, sample="3 key forms x eager / jit at a singular point")


def system_mask_sets(kind, tier):
    cterms = ["initial_condition", "observations"] if kind == "ODE" else ["initial_condition", "observations", "boundary_loss"]
    keys = [(u, t) for u in ("u", "v") for t in cterms]
    allsets = [dict(zip(keys, bits)) for bits in itertools.product((False, True), repeat=len(keys))]
    if tier == "thorough":
        return allsets
    # quick: assignments in which the two unknowns differ on every term, plus the extremes
    pick = [m for m in allsets if all(m[("u", t)] != m[("v", t)] for t in cterms)]
    return pick[:4] + [allsets[0], allsets[-1]]


# ---- mask construction: pure Python over concrete structures; exhaustive up to 3 keys => bounded stand-in
def mask_builders(seed):
    from jinns.parameters import (DerivativeKeysODE, DerivativeKeysPDEStatio, DerivativeKeysPDENonStatio)
    fields = {DerivativeKeysODE: ["dyn_loss", "observations", "initial_condition"],
              DerivativeKeysPDEStatio: ["dyn_loss", "observations", "boundary_loss", "norm_loss"],
              DerivativeKeysPDENonStatio: ["dyn_loss", "observations", "boundary_loss", "norm_loss", "initial_condition"]}
    n = 0
    bad = []
    for nk in range(0, 4):
        keys = ["k%d" % i for i in range(nk)]
        for container in ("Params", "ParamsDict"):
            if container == "Params":
                params = Params(nn_params=OpaqueMLP(theta=jnp.zeros((2,)), F=None), eq_params={k: jnp.ones(()) for k in keys})
            else:
                params = ParamsDict(nn_params={"u": jnp.zeros((2,)), "v": jnp.zeros((1,))}, eq_params={k: jnp.ones(()) for k in keys})
            def expect(sel):
                nn = sel in ("nn_params", "both")
                eq = sel in ("eq_params", "both")
                return (nn, {k: eq for k in keys})
            def as_pair(tree):
                return (tree.nn_params, dict(tree.eq_params))
            for s in ("nn_params", "eq_params", "both"):
                got = as_pair(_get_masked_parameters(s, params))
                n += 1
                if got != expect(s):
                    bad.append(f"_get_masked_parameters({s!r}, {container} with keys {keys}) = {got}, expected {expect(s)}")
            for cls, flds in fields.items():
                # default: network parameters only
                dflt = cls(params=params)
                for f in flds:
                    n += 1
                    if as_pair(getattr(dflt, f)) != expect("nn_params"):
                        bad.append(f"default {cls.__name__}.{f} with {container}/{keys} = {as_pair(getattr(dflt, f))}")
                # string form == boolean-tree form, for every combination of strings (exhaustive)
                for combo in itertools.product(("nn_params", "eq_params", "both"), repeat=len(flds)):
                    kw = dict(zip(flds, combo))
                    a = cls.from_str(params=params, **kw)
                    b = cls(**{f: _get_masked_parameters(v, params) for f, v in kw.items()})
                    for f in flds:
                        n += 1
                        if as_pair(getattr(a, f)) != expect(kw[f]) or as_pair(getattr(b, f)) != expect(kw[f]):
                            bad.append(f"{cls.__name__}.from_str({kw}) field {f}: {as_pair(getattr(a, f))}")
                # constructor with any subset of the fields given (as trees), the others left to their default:
                # a field left out is "network parameters only", whatever the other fields are
                for combo in itertools.product((None, "nn_params", "eq_params", "both"), repeat=len(flds)):
                    if all(v is None for v in combo) or all(v is not None for v in combo):
                        continue
                    kw = {f: _get_masked_parameters(v, params) for f, v in zip(flds, combo) if v is not None}
                    a = cls(params=params, **kw)
                    for f, v in zip(flds, combo):
                        n += 1
                        if as_pair(getattr(a, f)) != expect(v or "nn_params"):
                            bad.append(f"{cls.__name__}(params, {dict((k, c_) for k, c_ in zip(flds, combo) if c_)}) field {f}: "
                                       f"{as_pair(getattr(a, f))}, expected {expect(v or 'nn_params')}")
                # mixed: a ready-made tree is passed through unchanged
                tree = _get_masked_parameters("both", params)
                a = cls.from_str(params=params, **{flds[0]: tree})
                n += 1
                if getattr(a, flds[0]) is not tree:
                    bad.append(f"{cls.__name__}.from_str does not pass a Boolean tree through")
    if bad:
        return dict(status="violated", failure="mask-construction", backend="exhaustive", bounded=True,
                    detail=bad[0], replay={"native_disagrees": True, "native": bad[:5], "expected": "documented mask tree"})
    return dict(status="discharged", backend="exhaustive(bounded)", bounded=True, sample=f"{n} mask trees compared")


def obligations(tier):
    obs = []
    for kind in ("ODE", "statio", "nonstatio"):
        for g in ("th", "a", "b"):
            obs.append(routing(kind, g))
        # the observations carry observed values of 'a': the observation term is still masked by its own keys
        for g in (("th", "a") if tier == "quick" else ("th", "a", "b")):
            obs.append(routing(kind, g, obs_param=True))
        for g in ("a", "b"):
            obs.append(routing(kind, g, mask_order=("b", "a")))       # mask dictionaries written in another order than eq_params
        obs.append(value_independence(kind))
    for g in ("t1", "t2", "a"):
        obs.append(paramsdict_routing(g))
    for kind in ("ODE", "nonstatio"):
        for m in system_mask_sets(kind, tier):
            for g in ("u", "v"):
                obs.append(system_routing(kind, m, g))
    for kind in ("ODE", "statio", "nonstatio"):
        obs.append(system_eq_param_routing(kind))
        obs.append(system_eq_param_routing(kind, param_batch=True))
    # the keys also route the gradient when the batch carries per-sample parameters (C12 gradient obligations, reported here)
    from contracts import c12
    for kind in ("ODE", "statio", "nonstatio"):
        for (K, g) in ((("a",), "th"), (("a",), "b"), (("b",), "a")):
            o = c12.batched(kind, K, 2, grad_group=g)
            o.name = o.name.replace("C12/", "C06/")
            obs.append(o)
    for g_ in ("th", "r", "K", "c"):
        obs.append(nested_entry_routing(g_))
    obs.append(hyper_routing())
    obs.append(FnObligation("C06/bounded/unselected_parameter_with_singular_sensitivity_gets_exactly_zero", singular_sensitivity,
                            [DK + "_set_derivatives"]))
    obs.append(FnObligation("C06/mask_builders/bounded.exhaustive_key_sets_0..3", mask_builders,
                            [DK + "_get_masked_parameters", DK + "DerivativeKeysODE.from_str",
                             DK + "DerivativeKeysPDEStatio.from_str", DK + "DerivativeKeysPDENonStatio.from_str"]))
    return obs
