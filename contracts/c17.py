"""C17 — refinement adds the highest-residual candidates and keeps active points: see contracts/c16.py (same functions,
same symbolic execution; clauses active_points_kept / adds_highest_residual_candidates / candidates_in_domain)."""
from contracts import c16

META = dict(c16.META)


def obligations(tier):
    return c16.c17_obligations(tier)
