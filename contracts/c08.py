"""
C08 — collocation points lie in the declared domain, with declared counts and shapes.
Engine A (symbolic n, nt, nb, batch sizes, box bounds of any sign): the constructors of DataGeneratorODE,
CubicMeshPDEStatio and CubicMeshPDENonStatio establish the data-structure invariant
  WF: len(times) = nt, omega.shape = (n, dim), omega_border.shape = (nb/(2 dim), dim, 2 dim) (2-D) or (2,) (1-D);
      every time in [tmin, tmax], every interior point in the closed box; on facet phi every border row has its pinned
      coordinate equal to the facet's bound and its free coordinate in range, facets ordered xmin, xmax, ymin, ymax;
      in 1-D the border is (xmin, xmax);
every *_batch / get_batch preserves WF (stores are only permuted: C09) and returns arrays of the declared shape whose rows
are rows of the store.  The grid method is verified under real arithmetic (linspace model); the float behaviour of the
grid count is a *bounded* stand-in (concrete enumeration on the real constructors), labelled bounded.
"""
import time
import z3
from contracts.common import FnObligation
from vf import pyvc
from vf.pyvc import Executor, Rec, SArr, Key, INT32_MAX, prove, zint, zreal, perm_axioms

from vf.paths import R
SRC = [R("/repo/jinns/data/_DataGenerators.py"), R("/repo/jinns/data/_Batchs.py")]
DG = "jinns.data._DataGenerators:"
META = dict(
    trusted_base=["Engine A: Python subset semantics and jnp models of vf/pyvc.py; floats are reals (linspace(a, b, n, endpoint=False)[k] = "
                  "a + k (b - a) / n)", "assumed contracts: jax.random.uniform (values in [minval, maxval]), jax.random.split, "
                  "jax.random.choice (permutation)", "iteration rule (WF is preserved by every batch call)", "z3"],
    bounded_in={"dimension": "1..2", "float grid counts (bounded stand-in)": "n in 1..300 (quick) / 1..2000 (thorough) x 6 intervals, float32"},
    unbounded_in=["n, nt, nb, batch sizes", "domain bounds (any sign, min <= max)", "PRNG outcomes (assumed contract)", "history of batch calls"],
    assumptions=["2-D grid sampling requires n to be a perfect square (precondition derived from the code)"],
)
n, nt, nf, bt, bx, bb, s_ = z3.Ints("n nt nf bt bx bb s")
k_, c_, f_ = z3.Ints("k c f")
tmin, tmax, xmin, xmax, ymin, ymax = z3.Reals("tmin tmax xmin xmax ymin ymax")
BOX = [tmin <= tmax, xmin <= xmax, ymin <= ymax]


def uniform_axioms(ex, points):
    ax = []
    for (lo, hi, f) in getattr(ex, "uniforms", []):
        for pt in points:
            args = [zint(pt)] + [z3.IntVal(0)] * (f.arity() - 1)
            ax.append(z3.And(lo <= f(*args), f(*args) <= hi))
    return ax


def done(name, goals, pre, ex, t0, axioms=(), canary=None):
    for nm, g in goals:
        st, model = prove(g, pre, axioms=list(axioms), timeout_ms=30000)
        if st != "unsat":
            return refuted(name + "." + nm, st, model)
    for nm, pc_, g in ex.obligations:
        st, model = prove(g, pre + list(pc_), axioms=list(axioms), timeout_ms=20000)
        if st != "unsat":
            return refuted(name + ".side:" + nm, st, model)
    out = dict(status="discharged", backend="pyvc+z3", solver_s=time.time() - t0,
               sample=f"{ex.stmts_visited} statements executed; goals {[g[0] for g in goals]}")
    if canary is not None:
        st, _ = prove(canary, pre, axioms=list(axioms), timeout_ms=20000)
        if st == "unsat":
            return dict(status="error", detail=f"{name}: vacuity guard: the deliberately wrong postcondition verified")
        out["canary"] = "refuted" if st == "sat" else "not-refuted"
    return out


def refuted(name, st, model):
    if st == "unknown":
        return dict(status="undecided", backend="z3", detail=f"{name}: z3 unknown")
    vals = {str(d): str(model[d]) for d in model.decls() if d.arity() == 0 and "!" not in str(d)}
    nat = native_wf()
    return dict(status="violated", failure="value", backend="pyvc+z3", detail=f"{name} refuted; counter-model {vals}",
                replay=dict(native_disagrees=bool(nat), solver_model=vals, native=nat or "native generators satisfied WF on the sampled configurations",
                            expected="points in the domain, border rows on their facet, declared counts", inputs=vals))


# ------------------------------------------------------------------------------ constructors

ns_ = z3.Int("n_start")


def rar_kw():
    return {"start_iter": z3.Int("start_iter"), "update_every": z3.Int("update_every"),
            "selected_sample_size_times": z3.Int("sel_t"), "selected_sample_size_omega": z3.Int("sel_x"),
            "sample_size_times": z3.Int("S_t"), "sample_size_omega": z3.Int("S_x")}


def ode_ctor(method, rar=False):
    name = f"C08/DataGeneratorODE.__post_init__/ensures.WF[method={method}{',rar' if rar else ''}]"
    def run(seed):
        t0 = time.time()
        ex = Executor(SRC)
        pre0 = [nt >= 1] + ([ns_ >= 1, ns_ <= nt] if rar else [])
        kw = dict(rar_parameters=rar_kw(), nt_start=ns_) if rar else {}
        rec = ex.construct("DataGeneratorODE", [Key(), nt, tmin, tmax, bt, method], kw, pre0)
        times = rec.fields["times"]
        # with RAR only n_start rows are in use at first, but *all* nt stored rows are points of the domain (the tail
        # window of an epoch may reach beyond n_start)
        pre = pre0 + [bt >= 1, bt <= nt, k_ >= 0, k_ < nt] + BOX
        goals = [("count", zint(times.shape[0]) == nt), ("rank", z3.BoolVal(len(times.shape) == 1)),
                 ("in_domain", z3.And(zreal(times.elem(k_)) >= tmin, zreal(times.elem(k_)) <= tmax)),
                 ("first_call_reshuffles", zint(rec.fields["curr_time_idx"]) == INT32_MAX - bt - 1)]
        return done(name, goals, pre, ex, t0, uniform_axioms(ex, [k_]), canary=zreal(times.elem(k_)) < tmax)
    return FnObligation(name, run, [DG + "DataGeneratorODE.__post_init__", DG + "DataGeneratorODE.generate_time_data",
                                    DG + "DataGeneratorODE.sample_in_time_domain", DG + "_check_and_set_rar_parameters"])


def space_gen(ex, cls, dim, method, border, extra_pre, rar=False, cartesian=True):
    mins, maxs = (xmin, ymin)[:dim], (xmax, ymax)[:dim]
    kw = dict(key=Key(), n=n, nb=(2 * dim * nf if border else None), omega_batch_size=bx,
              omega_border_batch_size=(bb if border else None), dim=dim, min_pts=mins, max_pts=maxs, method=method)
    if rar:
        kw.update(rar_parameters=rar_kw(), n_start=ns_)
    if cls == "CubicMeshPDENonStatio":
        kw.update(temporal_batch_size=bt, tmin=tmin, tmax=tmax, nt=nt)
        if rar:
            kw.update(nt_start=z3.Int("nt_start"))
        if not cartesian:
            kw.update(cartesian_product=False)
    if method == "grid" and dim == 2:
        ex.sqrt_of = [(n, s_)]
    return ex.construct(cls, [], kw, extra_pre)


def space_ctor(cls, dim, method, border, rar=False):
    name = f"C08/{cls}.__post_init__/ensures.WF[dim={dim},method={method},border={int(border)}{',rar' if rar else ''}]"
    def run(seed):
        t0 = time.time()
        ex = Executor(SRC)
        pre0 = [n >= 1, nt >= 1, nf >= 1, bb >= 1, bb <= nf, bx >= 1, bx <= n, bt >= 1, bt <= nt] + BOX
        if rar:
            pre0 += [ns_ >= 1, ns_ <= n, z3.Int("nt_start") >= 1, z3.Int("nt_start") <= nt]
        if method == "grid" and dim == 2:
            pre0 += [s_ >= 1, n == s_ * s_]
        rec = space_gen(ex, cls, dim, method, border, pre0, rar)
        om = rec.fields["omega"]
        mins, maxs = (xmin, ymin)[:dim], (xmax, ymax)[:dim]
        pre = pre0 + [k_ >= 0, k_ < n, c_ >= 0, c_ < dim]
        lo = mins[0] if dim == 1 else z3.If(c_ == 0, mins[0], mins[1])
        hi = maxs[0] if dim == 1 else z3.If(c_ == 0, maxs[0], maxs[1])
        goals = [("interior_shape", z3.And(zint(om.shape[0]) == n, zint(om.shape[1]) == dim)),
                 ("interior_in_box", z3.And(zreal(om.elem(k_, c_)) >= lo, zreal(om.elem(k_, c_)) <= hi))]
        ob = rec.fields["omega_border"]
        kf = z3.Int("kf")
        ax = uniform_axioms(ex, [k_, kf])
        if method == "grid" and dim == 2:
            # hints for the row-major split of the grid index
            ax += [z3.And(k_ / s_ >= 0, k_ / s_ < s_, k_ % s_ >= 0, k_ % s_ < s_)]
        if not border:
            goals.append(("no_border", z3.BoolVal(ob is None and rec.fields["nb"] is None)))
        elif dim == 1:
            goals += [("border_is_the_pair_of_end_points", z3.And(zint(ob.shape[0]) == 2, zreal(ob.elem(0)) == xmin, zreal(ob.elem(1)) == xmax)),
                      ("border_rank", z3.BoolVal(len(ob.shape) == 1)), ("nb", zint(rec.fields["nb"]) == 2)]
        else:
            pre = pre + [kf >= 0, kf < nf]
            pinned = [(0, 0, xmin), (0, 1, xmax), (1, 2, ymin), (1, 3, ymax)]          # (coordinate, facet, bound)
            free = [(1, 0, ymin, ymax), (1, 1, ymin, ymax), (0, 2, xmin, xmax), (0, 3, xmin, xmax)]
            goals.append(("border_shape", z3.And(zint(ob.shape[0]) == nf, zint(ob.shape[1]) == 2, zint(ob.shape[2]) == 4)))
            for (cc, ff, bound) in pinned:
                goals.append((f"facet{ff}_pinned_coordinate", zreal(ob.elem(kf, cc, ff)) == bound))
            for (cc, ff, l_, h_) in free:
                goals.append((f"facet{ff}_free_coordinate_in_range", z3.And(zreal(ob.elem(kf, cc, ff)) >= l_, zreal(ob.elem(kf, cc, ff)) <= h_)))
            goals.append(("nb", zint(rec.fields["nb"]) == 4 * nf))
        if cls == "CubicMeshPDENonStatio":
            tk = z3.Int("tk")
            pre = pre + [tk >= 0, tk < nt]
            ax += uniform_axioms(ex, [tk])
            tm = rec.fields["times"]
            goals += [("time_count", zint(tm.shape[0]) == nt), ("times_in_domain", z3.And(zreal(tm.elem(tk)) >= tmin, zreal(tm.elem(tk)) <= tmax))]
        canary = None
        if border and dim == 2:
            canary = zreal(ob.elem(kf, 1, 3)) == xmax            # ymax facet pinned at the wrong bound
        return done(name, goals, pre, ex, t0, ax, canary)
    return FnObligation(name, run, [DG + f"{cls}.__post_init__", DG + "CubicMeshPDEStatio.generate_data",
                                    DG + "CubicMeshPDEStatio.sample_in_omega_domain", DG + "CubicMeshPDEStatio.sample_in_omega_border_domain"],
                        native_fallback=lambda: _safe_wf())


def ctor_sentinels(cls, dim, prefix="C08"):
    """every batch index starts at the reshuffle sentinel of its *own* batch size, INT32_MAX - b - 1 (so that the first
    draw reshuffles and idx + b never exceeds the 32-bit range: eager Python ints and jitted int32 agree)"""
    name = f"{prefix}/{cls}.__post_init__/ensures.every_index_starts_at_its_own_sentinel[dim={dim}]"
    def run(seed):
        t0 = time.time()
        ex = Executor(SRC)
        pre0 = [n >= 1, nt >= 1, nf >= 1, bb >= 1, bb <= nf, bx >= 1, bx <= n, bt >= 1, bt <= nt] + BOX
        rec = space_gen(ex, cls, dim, "uniform", True, pre0)
        goals = [("interior_index", zint(rec.fields["curr_omega_idx"]) == INT32_MAX - bx - 1),
                 ("border_index", zint(rec.fields["curr_omega_border_idx"]) == INT32_MAX - (2 if dim == 1 else bb) - 1),
                 ("border_batch_size_field", zint(rec.fields["omega_border_batch_size"]) == (2 if dim == 1 else bb))]
        if cls == "CubicMeshPDENonStatio":
            goals.append(("time_index", zint(rec.fields["curr_time_idx"]) == INT32_MAX - bt - 1))
        return done(name, goals, pre0, ex, t0, canary=zint(rec.fields["curr_omega_idx"]) == INT32_MAX - bx)
    return FnObligation(name, run, [DG + f"{cls}.__post_init__"])


def ctor_rejects(what):
    name = f"C08/CubicMeshPDEStatio.__post_init__/raises.{what}"
    def run(seed):
        t0 = time.time()
        ex = Executor(SRC)
        nbv = z3.Int("nbv")
        pre = {"border_count_not_multiple_of_facets": [nbv >= 1, nbv % 4 != 0, bb >= 1],
               "border_batch_larger_than_facet": [nbv >= 4, nbv % 4 == 0, bb > nbv / 4]}[what]
        cls, node = ex.find_method("CubicMeshPDEStatio", "__post_init__")
        rec = Rec("CubicMeshPDEStatio", dict(key=Key(), n=n, nb=nbv, omega_batch_size=bx, omega_border_batch_size=bb, dim=2,
                                            min_pts=(xmin, ymin), max_pts=(xmax, ymax), method="uniform", rar_parameters=None, n_start=None))
        outs = ex.call_closure(pyvc.Closure(node, {}, ex, self_val=rec, cls=cls), [], {}, pre + [n >= 1])
        ok = outs and all(o.kind == "raise" and o.value == "ValueError" for o in outs)
        return dict(status="discharged" if ok else "violated", backend="pyvc", failure="no-raise", solver_s=time.time() - t0,
                    detail="" if ok else f"{what}: constructor outcomes {[(o.kind, o.value if o.kind == 'raise' else '') for o in outs]}",
                    replay=dict(native_disagrees=False))
    return FnObligation(name, run, [DG + "CubicMeshPDEStatio.__post_init__"])


def paired_ctor_rejects(dim, what):
    """paired (non cartesian) batches need equal batch sizes: the constructor refuses anything else"""
    name = f"C08/CubicMeshPDENonStatio.__post_init__/raises.paired_batches_of_different_sizes[dim={dim},{what}]"
    def run(seed):
        t0 = time.time()
        ex = Executor(SRC)
        pre0 = [n >= 1, nt >= 1, nf >= 1, bb >= 1, bb <= nf, bx >= 1, bx <= n, bt >= 1, bt <= nt] + BOX
        pre0 += {"time_vs_interior": [bt != bx], "time_vs_border": [bt == bx, bt != bb]}[what]
        try:
            space_gen(ex, "CubicMeshPDENonStatio", dim, "uniform", True, pre0, cartesian=False)
            raised = None
        except pyvc.PyRaise as e:
            raised = e.exc_name
        expect = "ValueError" if (what == "time_vs_interior" or dim > 1) else None      # in 1-D the border is the pair of end points
        ok = raised == expect
        return dict(status="discharged" if ok else "violated", backend="pyvc", failure="no-raise", solver_s=time.time() - t0,
                    detail="" if ok else f"constructor outcome {raised}, expected {expect}", replay=dict(native_disagrees=False))
    return FnObligation(name, run, [DG + "CubicMeshPDENonStatio.__post_init__"])


# ------------------------------------------------------------------------------ batches

def batch_shapes(cls, dim, cartesian=True):
    name = f"C08/{cls}.get_batch/ensures.declared_shapes_and_rows_in_domain[dim={dim}{'' if cartesian else ',cartesian_product=False'}]"
    def run(seed):
        t0 = time.time()
        ex = Executor(SRC)
        pre0 = [n >= 1, nt >= 1, nf >= 1, bb >= 1, bb <= nf, bx >= 1, bx <= n, bt >= 1, bt <= nt, n < 2 ** 30, nt < 2 ** 30, nf < 2 ** 28] + BOX
        if not cartesian:
            # rows are paired, not crossed: the three batch sizes coincide (precondition derived from the concatenations)
            pre0 += [bt == bx] + ([bt == bb] if dim > 1 else [])
        if cls == "DataGeneratorODE":
            rec = ex.construct("DataGeneratorODE", [Key(), nt, tmin, tmax, bt, "uniform"], {}, pre0)
        else:
            rec = space_gen(ex, cls, dim, "uniform", True, pre0, cartesian=cartesian)
        outs_ = [o for o in ex.call_method(rec, "get_batch") if o.kind == "return"]
        if not outs_:
            raise pyvc.Unsupported("get_batch: no normal return")
        last = None
        for o in outs_:           # one outcome per path the code distinguishes (a branch on symbolic sizes, ...)
            new, batch = o.value
            r = z3.Int("r")
            pre = pre0 + list(o.pc) + [r >= 0, c_ >= 0, f_ >= 0]
            goals, pts_ = [], []
            if cls == "DataGeneratorODE":
                tb = batch.fields["temporal_batch"]
                goals += [("shape", z3.And(zint(tb.shape[0]) == bt, z3.BoolVal(len(tb.shape) == 1))),
                          ("in_domain", z3.Implies(r < bt, z3.And(zreal(tb.elem(r)) >= tmin, zreal(tb.elem(r)) <= tmax)))]
            elif cls == "CubicMeshPDEStatio":
                ib, bd = batch.fields["inside_batch"], batch.fields["border_batch"]
                lo = xmin if dim == 1 else z3.If(c_ == 0, xmin, ymin)
                hi = xmax if dim == 1 else z3.If(c_ == 0, xmax, ymax)
                goals += [("inside_shape", z3.And(zint(ib.shape[0]) == bx, zint(ib.shape[1]) == dim)),
                          ("inside_in_box", z3.Implies(z3.And(r < bx, c_ < dim), z3.And(zreal(ib.elem(r, c_)) >= lo, zreal(ib.elem(r, c_)) <= hi)))]
                if dim == 1:
                    goals += [("border_shape", z3.And(zint(bd.shape[0]) == 1, zint(bd.shape[1]) == 1, zint(bd.shape[2]) == 2)),
                              ("border_is_end_points", z3.And(zreal(bd.elem(0, 0, 0)) == xmin, zreal(bd.elem(0, 0, 1)) == xmax))]
                else:
                    goals += [("border_shape", z3.And(zint(bd.shape[0]) == bb, zint(bd.shape[1]) == 2, zint(bd.shape[2]) == 4)),
                              ("border_rows_on_facets", z3.Implies(r < bb, z3.And(zreal(bd.elem(r, 0, 0)) == xmin, zreal(bd.elem(r, 0, 1)) == xmax,
                                                                                 zreal(bd.elem(r, 1, 2)) == ymin, zreal(bd.elem(r, 1, 3)) == ymax)))]
            else:
                tx, tdx = batch.fields["times_x_inside_batch"], batch.fields["times_x_border_batch"]
                rows_in = bt * bx if cartesian else bt
                rows_bd = (bt * (1 if dim == 1 else bb)) if (cartesian or dim == 1) else bt
                goals += [("interior_shape", z3.And(zint(tx.shape[0]) == rows_in, zint(tx.shape[1]) == 1 + dim)),
                          ("border_shape", z3.And(zint(tdx.shape[0]) == rows_bd, zint(tdx.shape[1]) == 1 + dim,
                                                  zint(tdx.shape[2]) == 2 * dim))]
                # content: column 0 is a time of the interval, the other columns a point of the box / of the facet
                lo = xmin if dim == 1 else z3.If(c_ == 0, xmin, ymin)
                hi = xmax if dim == 1 else z3.If(c_ == 0, xmax, ymax)
                goals += [("interior_time_column_in_interval", z3.Implies(r < rows_in, z3.And(zreal(tx.elem(r, 0)) >= tmin, zreal(tx.elem(r, 0)) <= tmax))),
                          ("interior_space_columns_in_box", z3.Implies(z3.And(r < rows_in, c_ < dim),
                                                                       z3.And(zreal(tx.elem(r, 1 + c_)) >= lo, zreal(tx.elem(r, 1 + c_)) <= hi))),
                          ("border_time_row_in_interval", z3.Implies(z3.And(r < rows_bd, f_ < 2 * dim),
                                                                     z3.And(zreal(tdx.elem(r, 0, f_)) >= tmin, zreal(tdx.elem(r, 0, f_)) <= tmax)))]
                if dim == 1:
                    goals += [("border_is_end_points", z3.Implies(r < rows_bd, z3.And(zreal(tdx.elem(r, 1, 0)) == xmin, zreal(tdx.elem(r, 1, 1)) == xmax)))]
                else:
                    goals += [("border_rows_on_facets", z3.Implies(r < rows_bd, z3.And(
                        zreal(tdx.elem(r, 1, 0)) == xmin, zreal(tdx.elem(r, 1, 1)) == xmax, zreal(tdx.elem(r, 2, 2)) == ymin, zreal(tdx.elem(r, 2, 3)) == ymax))),
                              ("border_free_coordinates_in_range", z3.Implies(r < rows_bd, z3.And(
                                  zreal(tdx.elem(r, 2, 0)) >= ymin, zreal(tdx.elem(r, 2, 0)) <= ymax, zreal(tdx.elem(r, 2, 1)) >= ymin, zreal(tdx.elem(r, 2, 1)) <= ymax,
                                  zreal(tdx.elem(r, 1, 2)) >= xmin, zreal(tdx.elem(r, 1, 2)) <= xmax, zreal(tdx.elem(r, 1, 3)) >= xmin, zreal(tdx.elem(r, 1, 3)) <= xmax)))]
            # range instances of the uniform contract at every index the goals can touch (through the permutations)
            ax = []
            perms = getattr(ex, "perms", [])
            for (lo_, hi_, f) in getattr(ex, "uniforms", []):
                v = z3.Int("anyidx")
                zeros = [z3.IntVal(0)] * (f.arity() - 1)
                ax.append(z3.ForAll([v], z3.And(lo_ <= f(v, *zeros), f(v, *zeros) <= hi_)))
            for p in perms:
                v = z3.Int("anyidx2")
                ax.append(z3.ForAll([v], z3.Implies(z3.And(v >= 0, v < zint(p[2])), z3.And(p[0](v) >= 0, p[0](v) < zint(p[2])))))
            last = done(name, goals, pre, ex, t0, ax)
            if last.get("status") != "discharged":
                return last
        return last
    return FnObligation(name, run, [DG + f"{cls}.get_batch"])


def wf_preserved():
    name = "C08/lemma/permuting_a_store_keeps_every_point_in_the_domain"
    def run(seed):
        t0 = time.time()
        pi = z3.Function("pi", z3.IntSort(), z3.IntSort())
        st = z3.Function("store", z3.IntSort(), z3.RealSort())
        pre = [k_ >= 0, k_ < n, z3.And(pi(k_) >= 0, pi(k_) < n),                               # permutation contract at k
               z3.And(st(pi(k_)) >= tmin, st(pi(k_)) <= tmax)]                                  # WF of the old store at pi(k)
        st_, model = prove(z3.And(st(pi(k_)) >= tmin, st(pi(k_)) <= tmax), pre)
        return dict(status="discharged" if st_ == "unsat" else "undecided", backend="z3", solver_s=time.time() - t0,
                    sample="store'[k] = store[pi(k)] with pi(k) in [0, n) => store'[k] in the domain")
    return FnObligation(name, run, [DG + "_reset_batch_idx_and_permute"])


# ------------------------------------------------------------------------------ bounded float stand-in + native witness

def float_grid(tier):
    N = 300 if tier == "quick" else 2000
    name = f"C08/bounded/grid_counts_and_ranges_in_float_arithmetic[n<={N}]"
    def run(seed):
        import numpy as np, jax, jax.numpy as jnp
        from jinns.data._DataGenerators import DataGeneratorODE, CubicMeshPDEStatio, DataGeneratorParameter
        t0 = time.time()
        key = jax.random.PRNGKey(0)
        bad, cnt = [], 0
        intervals = [(0.0, 1.0), (-1.0, 1.0), (0.5, 3.7), (-3.0, 3.0), (0.0, 10.0), (-7.25, -1.5)]
        step = 1 if tier == "thorough" else 1
        for nn in range(1, N + 1, step):
            for (a, b_) in (intervals if nn % 7 == 0 or nn < 120 else intervals[:2]):
                g = DataGeneratorODE(key, nn, a, b_, 1, "grid")
                cnt += 1
                t = np.asarray(g.times)
                if t.shape != (nn,) or t.min() < a or t.max() > b_:
                    bad.append(f"DataGeneratorODE(nt={nn}, [{a},{b_}], grid) stores {t.shape[0]} points in [{t.min()}, {t.max()}]")
            if nn <= 60:
                g = CubicMeshPDEStatio(key=key, n=nn, nb=None, omega_batch_size=1, omega_border_batch_size=None, dim=1, min_pts=(-2.0,), max_pts=(0.5,), method="grid")
                cnt += 1
                if np.asarray(g.omega).shape != (nn, 1):
                    bad.append(f"CubicMeshPDEStatio(n={nn}, dim=1, grid) stores {np.asarray(g.omega).shape}")
                s2 = nn * nn
                if nn <= 25:
                    g = CubicMeshPDEStatio(key=key, n=s2, nb=None, omega_batch_size=1, omega_border_batch_size=None, dim=2, min_pts=(-2.0, 0.0),
                                           max_pts=(0.5, 3.0), method="grid")
                    cnt += 1
                    o = np.asarray(g.omega)
                    if o.shape != (s2, 2) or o[:, 0].min() < -2.0 or o[:, 0].max() > 0.5 or o[:, 1].min() < 0.0 or o[:, 1].max() > 3.0:
                        bad.append(f"CubicMeshPDEStatio(n={s2}, dim=2, grid) stores {o.shape}")
                    if len({(round(float(p[0]), 5), round(float(p[1]), 5)) for p in o}) != s2:
                        bad.append(f"CubicMeshPDEStatio(n={s2}, dim=2, grid) stores duplicated grid points")
                g = DataGeneratorParameter(key, nn, 1, {"a": (0.1, 2.3)}, "grid")
                cnt += 1
                if np.asarray(g.param_n_samples["a"]).shape != (nn, 1):
                    bad.append(f"DataGeneratorParameter(n={nn}, grid) stores {np.asarray(g.param_n_samples['a']).shape}")
        if bad:
            return dict(status="violated", failure="bounded", backend="native(bounded)", bounded=True, detail=bad[0],
                        replay=dict(native_disagrees=True, native=bad[:5], expected="exactly n points inside the domain", inputs=bad[0]))
        return dict(status="discharged", backend="native(bounded)", bounded=True, solver_s=0.0,
                    sample=f"{cnt} real constructor calls (float32), n <= {N}", wall=time.time() - t0)
    return FnObligation(name, run, [DG + "DataGeneratorODE.generate_time_data", DG + "CubicMeshPDEStatio.generate_data"])


def native_refined_in_domain():
    """a non-stationary generator refined twice on a box whose x and y ranges are disjoint: stores and batches stay inside"""
    import numpy as np, jax, warnings
    import jax.numpy as jnp
    import equinox as eqx
    from jinns.solver._rar import init_rar, trigger_rar
    from jinns.data._DataGenerators import CubicMeshPDENonStatio
    from jinns.loss import LossPDENonStatio, PDENonStatio
    from jinns.parameters import Params
    from jinns.utils._pinn import PINN

    class Dyn(PDENonStatio):
        def equation(self, t, x, u, params):
            return jnp.sin(9.0 * t) * jnp.cos(5.0 * x[0:1]) + x[1:2]

    class M(eqx.Module):
        w: jax.Array
        def __call__(self, x):
            return jnp.sum(self.w * x)[None]
    u = PINN(mlp=M(jnp.ones(3)), slice_solution=jnp.s_[0:1], eq_type="nonstatio_PDE", input_transform=lambda i, p: i, output_transform=lambda i, o, p: o)
    params = Params(nn_params=u.params, eq_params={})
    with warnings.catch_warnings():
        warnings.simplefilter("ignore")
        loss = LossPDENonStatio(u=u, dynamic_loss=Dyn(), params=params)
    mn, mx = (-1.0, 2.0), (1.0, 5.0)
    rp = {"start_iter": 0, "update_every": 1, "sample_size_times": 4, "selected_sample_size_times": 2, "sample_size_omega": 6, "selected_sample_size_omega": 3}
    g = CubicMeshPDENonStatio(key=jax.random.PRNGKey(1), n=14, nb=None, nt=12, omega_batch_size=2, omega_border_batch_size=None, temporal_batch_size=2,
                              dim=2, min_pts=mn, max_pts=mx, tmin=3.0, tmax=4.0, rar_parameters=rp, n_start=4, nt_start=4)
    g, ft, ff = init_rar(g)
    for i in range(2):
        _, _, g = trigger_rar(i, loss, params, g, ft, ff)
        om, tm = np.asarray(g.omega), np.asarray(g.times)
        for cc in range(2):
            if om[:, cc].min() < mn[cc] or om[:, cc].max() > mx[cc]:
                return [f"after refinement step {i + 1} on the box {mn}-{mx}: stored points leave the box in coordinate {cc}: "
                        f"range [{om[:, cc].min():.4f}, {om[:, cc].max():.4f}]"]
        if tm.min() < 3.0 or tm.max() > 4.0:
            return [f"after refinement step {i + 1}: stored times leave [3, 4]"]
    return None


def _safe_wf():
    try:
        return native_wf()
    except Exception:
        return None


def native_wf():
    import numpy as np, jax
    from jinns.data._DataGenerators import CubicMeshPDEStatio, CubicMeshPDENonStatio
    msgs = []
    try:
        m_ = native_refined_in_domain()
        if m_:
            return m_
    except Exception:
        pass
    # 1-D border = exactly the pair of end points (end points that are not representable in a narrower float type)
    for (a_, b_) in ((0.7, 1.1), (-0.3, 0.1)):
        g = CubicMeshPDEStatio(key=jax.random.PRNGKey(0), n=5, nb=2, omega_batch_size=2, omega_border_batch_size=1, dim=1,
                               min_pts=(a_,), max_pts=(b_,))
        ob = np.asarray(g.omega_border, dtype=np.float64).reshape(-1)
        want = np.asarray(jax.numpy.array([a_, b_]).astype(float), dtype=np.float64)
        if ob.tolist() != want.tolist():
            return [f"1-D generator on [{a_}, {b_}]: the stored border is {ob.tolist()}, not the pair of end points {want.tolist()}"]
    # 2-D border facets under JAX's default 32-bit types, boxes whose bounds are not binary fractions: the pinned coordinate of
    # a facet is exactly the (rounded) bound — "min + (max - min)" is not
    ctx = getattr(jax, "enable_x64", None)
    if ctx is not None:
        try:
            with ctx(False):
                for (mn, mx) in (((0.1, 0.3), (1.8, 2.9)), ((-1.4, 2.2), (1.8, 3.3)), ((-2.3, 0.7), (-0.1, 1.1))):
                    g = CubicMeshPDEStatio(key=jax.random.PRNGKey(0), n=8, nb=8, omega_batch_size=2, omega_border_batch_size=2, dim=2,
                                           min_pts=mn, max_pts=mx)
                    ob = np.asarray(g.omega_border)
                    for (cc, ff, bound) in [(0, 0, mn[0]), (0, 1, mx[0]), (1, 2, mn[1]), (1, 3, mx[1])]:
                        want = np.float32(bound)
                        if not np.all(ob[:, cc, ff] == want):
                            return [f"32-bit types, box {mn}-{mx}: facet {ff} stores coordinate {cc} = {float(ob[0, cc, ff])!r}, the bound is {float(want)!r}"
                                    + (" (outside the closed box)" if (ob[:, cc, ff] > want).any() or (ob[:, cc, ff] < np.float32(mn[cc])).any() else "")]
        except Exception:
            pass
    # grid sampling stores exactly the requested number of points (or refuses the request)
    for n_req in list(range(2, 131)) + [154, 196, 197]:
        for dim in ((1, 2) if n_req in (9, 10, 12, 16, 20) else (1,)):
            try:
                box = ((0.0, 1.0) if n_req % 2 else (-2.0, 3.0)) if dim == 1 else (0.0, 1.0)
                g = CubicMeshPDEStatio(key=jax.random.PRNGKey(0), n=n_req, nb=None, omega_batch_size=2, omega_border_batch_size=None, dim=dim,
                                       min_pts=(box[0],) * dim, max_pts=(box[1],) * dim, method="grid")
            except Exception:
                continue
            if tuple(np.asarray(g.omega).shape) != (n_req, dim):
                return [f"grid sampling, dim={dim}, n={n_req} requested: the generator stores an array of shape {tuple(np.asarray(g.omega).shape)}"]
    for (mn, mx) in [((-1.0, 0.5), (2.0, 1.5)), ((0.0, 0.0), (1.0, 1.0)), ((-3.0, -7.0), (-1.0, 4.0)), ((-4.0, 2.0), (-1.0, 3.0)), ((0.0, 10.0), (1.0, 12.0))]:
        g = CubicMeshPDENonStatio(key=jax.random.PRNGKey(2), n=12, nb=8, nt=6, omega_batch_size=4, omega_border_batch_size=2, temporal_batch_size=3,
                                  dim=2, min_pts=mn, max_pts=mx, tmin=-1.0, tmax=2.0)
        for call in range(5):
            ob = np.asarray(g.omega_border)
            want = [(0, 0, mn[0]), (0, 1, mx[0]), (1, 2, mn[1]), (1, 3, mx[1])]
            for (cc, ff, bound) in want:
                if not np.allclose(ob[:, cc, ff], bound):
                    msgs.append(f"box {mn}-{mx}: facet {ff} has coordinate {cc} = {ob[:, cc, ff].tolist()}, expected {bound}")
            free = [(1, 0), (1, 1), (0, 2), (0, 3)]        # (free coordinate, facet)
            for (cc, ff) in free:
                if ob[:, cc, ff].min() < mn[cc] or ob[:, cc, ff].max() > mx[cc]:
                    msgs.append(f"box {mn}-{mx}: facet {ff}: free coordinate {cc} ranges over [{ob[:, cc, ff].min()}, {ob[:, cc, ff].max()}], outside [{mn[cc]}, {mx[cc]}]")
            om = np.asarray(g.omega)
            if om[:, 0].min() < mn[0] or om[:, 0].max() > mx[0] or om[:, 1].min() < mn[1] or om[:, 1].max() > mx[1]:
                msgs.append(f"box {mn}-{mx}: interior points outside the box")
            g, b_ = g.get_batch()
            tdx = np.asarray(b_.times_x_border_batch)
            for (cc, ff, bound) in want:
                if not np.allclose(tdx[:, 1 + cc, ff], bound):
                    msgs.append(f"box {mn}-{mx}: border batch facet {ff} off its facet")
            if msgs:
                return msgs[:3]
        # paired (non cartesian) batches
        g = CubicMeshPDENonStatio(key=jax.random.PRNGKey(3), n=12, nb=8, nt=6, omega_batch_size=2, omega_border_batch_size=2, temporal_batch_size=2,
                                  dim=2, min_pts=mn, max_pts=mx, tmin=50.0, tmax=60.0, cartesian_product=False)
        for call in range(3):
            g, b_ = g.get_batch()
            tdx, tx = np.asarray(b_.times_x_border_batch), np.asarray(b_.times_x_inside_batch)
            if tx[:, 0].min() < 50.0 or tx[:, 0].max() > 60.0 or tdx[:, 0].min() < 50.0 or tdx[:, 0].max() > 60.0:
                msgs.append(f"box {mn}-{mx}, cartesian_product=False: column 0 of a batch is not a time of [50, 60]: {tdx[:, 0].tolist()}")
            for (cc, ff, bound) in want:
                if not np.allclose(tdx[:, 1 + cc, ff], bound):
                    msgs.append(f"box {mn}-{mx}, cartesian_product=False: border batch facet {ff} off its facet")
            if msgs:
                return msgs[:3]
        # RAR: all stored rows are points of the domain and so is every batch, across epochs
        rp = {"start_iter": 0, "update_every": 1, "sample_size_omega": 4, "selected_sample_size_omega": 1,
              "sample_size_times": 4, "selected_sample_size_times": 1}
        for dim, lo_, hi_ in ((2, mn, mx), (1, (mn[1] + 20.0,), (mx[1] + 20.0,))):
            g = CubicMeshPDEStatio(key=jax.random.PRNGKey(4), n=10, nb=None, omega_batch_size=3, omega_border_batch_size=None, dim=dim, min_pts=lo_, max_pts=hi_,
                                   rar_parameters=rp, n_start=5)
            for call in range(6):
                om = np.asarray(g.omega)
                g, b_ = g.get_batch()
                for arr_, what in ((om, "stored points"), (np.asarray(b_.inside_batch), f"batch of call {call}")):
                    for cc in range(dim):
                        if arr_[:, cc].min() < lo_[cc] or arr_[:, cc].max() > hi_[cc]:
                            msgs.append(f"RAR generator (n=10, n_start=5, batch 3), box {lo_}-{hi_}: {what} leave the box: {arr_.tolist()}")
                if msgs:
                    return msgs[:3]
    return None


def native_ob():
    def run(seed):
        m = native_wf()
        if m:
            return dict(status="violated", failure="native", backend="native(bounded)", bounded=True, detail=m[0],
                        replay=dict(native_disagrees=True, native=m, expected="WF"))
        return dict(status="discharged", backend="native(bounded)", bounded=True, sample="3 boxes x 5 get_batch calls on the real non-stationary generator")
    return FnObligation("C08/bounded/native_well_formedness_witness", run, [DG + "CubicMeshPDENonStatio.get_batch"])


def obligations(tier):
    obs = [ode_ctor("uniform"), ode_ctor("grid"), ode_ctor("uniform", rar=True), ode_ctor("grid", rar=True)]
    for cls in ("CubicMeshPDEStatio", "CubicMeshPDENonStatio"):
        for dim in (1, 2):
            for method in ("uniform", "grid"):
                for border in (True, False):
                    if method == "grid" and border and cls == "CubicMeshPDENonStatio":
                        continue
                    obs.append(space_ctor(cls, dim, method, border))
                if not (method == "grid" and dim == 2 and tier == "quick"):
                    obs.append(space_ctor(cls, dim, method, False, rar=True))
    obs += [ctor_rejects("border_count_not_multiple_of_facets"), ctor_rejects("border_batch_larger_than_facet")]
    obs += [paired_ctor_rejects(1, "time_vs_interior"), paired_ctor_rejects(2, "time_vs_interior"), paired_ctor_rejects(2, "time_vs_border"),
            paired_ctor_rejects(1, "time_vs_border")]
    obs += [ctor_sentinels(cls, dim) for cls in ("CubicMeshPDEStatio", "CubicMeshPDENonStatio") for dim in (1, 2)]
    obs += [batch_shapes("DataGeneratorODE", 1), batch_shapes("CubicMeshPDEStatio", 1), batch_shapes("CubicMeshPDEStatio", 2),
            batch_shapes("CubicMeshPDENonStatio", 1), batch_shapes("CubicMeshPDENonStatio", 2),
            batch_shapes("CubicMeshPDENonStatio", 1, cartesian=False), batch_shapes("CubicMeshPDENonStatio", 2, cartesian=False), wf_preserved()]
    # "every batch it ever returns": for ANY state satisfying the batching invariant the batch is a window of the store
    # (hence made of points of the domain / of border rows on their facets, by WF) — the C09 step contract, restated for C08
    from contracts import c09
    for which, rars in c09.CONSUMERS[:6]:
        for rar in rars:
            for cl in ("batch_is_window_of_store", "batch_shape"):
                o = c09.consumer_ob(which, rar, cl)
                o.name = o.name.replace("C09/", "C08/any_state/")
                obs.append(o)
    # a refinement (RAR) step writes candidates into the pre-allocated rows: they are drawn from the generator's own domain
    # and stored unchanged (the C17 contracts of the step, reported here: the stores stay inside the domain)
    from contracts import c16
    for kind in ("ODE", "statio", "nonstatio"):
        for cl in ("candidates_in_domain", "adds_highest_residual_candidates"):
            o = c16.ob_step_true(kind, cl)
            o.name = o.name.replace("C17/", "C08/after_refinement/")
            obs.append(o)
    obs += [float_grid(tier), native_ob()]
    return obs
