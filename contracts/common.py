"""Shared builders for the sidecar contracts (no code of /repo is copied here)."""
from __future__ import annotations
import numpy as np
import jax
import jax.numpy as jnp
import equinox as eqx

from vf import poly as P
from vf.poly import Poly
from vf.opaque import Opaque, OpaqueFn, OpaqueMLP, OpaqueLayer
from vf.jxinterp import sym_input
from vf.oblig import Inp, EqObligation, RaisesObligation, FnObligation

from jinns.utils._pinn import PINN
from jinns.parameters._params import Params, ParamsDict

TRUSTED_B = [
    "JAX tracer / autodiff / vmap are the semantics of the code (jax.make_jaxpr of the real functions)",
    "arithmetic is real arithmetic (no rounding, no overflow; NaN only as the predicate isnan)",
    "networks and user functions are C^4 and mixed partials commute (Schwarz)",
    "Engine B interpreter: hand-written semantics of arithmetic primitives and the ring normaliser "
    "(cross-checked numerically against native JAX execution on every obligation)",
    "structural primitives are executed by JAX itself on identifier arrays",
]


def ident_in(i, p):
    return i


def ident_out(i, o, p):
    return o


class Net:
    """a real jinns PINN around an opaque mlp  y -> F(concat(y, theta))"""

    def __init__(self, name, eq_type, d_in, m, p=1, slice_solution=None, output_slice=None,
                 input_transform=None, output_transform=None, positive=False, K=4):
        self.name, self.eq_type, self.d_in, self.m, self.p = name, eq_type, d_in, m, p
        self.F = Opaque(name, d_in + p, m, K=K, positive=positive)
        self.u = PINN(
            mlp=OpaqueMLP(theta=jnp.zeros((p,)), F=self.F),
            slice_solution=slice_solution if slice_solution is not None else jnp.s_[0:m],
            eq_type=eq_type,
            input_transform=input_transform or ident_in,
            output_transform=output_transform or ident_out,
            output_slice=output_slice,
        )

    def nn_params(self, theta):
        return eqx.tree_at(lambda m: m.theta, self.u.params, theta)

    def params(self, theta, eq_params=None):
        return Params(nn_params=self.nn_params(theta), eq_params=eq_params if eq_params is not None else {})

    def jet(self, theta):
        """returns n(j, point, derivs=()) -> Poly; point = list of polys for the network input"""
        th = [theta[i] for i in range(self.p)]

        def n(j, point, derivs=()):
            pt = list(point)
            assert len(pt) == self.d_in, (len(pt), self.d_in)
            return P.app(self.name, j, derivs, pt + th)
        return n


def arr(fn, shape):
    """object array built from fn(index tuple)"""
    out = np.empty(shape, dtype=object)
    if out.ndim == 0:
        out[()] = P.as_poly(fn(()))
        return out
    for idx in np.ndindex(*shape):
        out[idx] = P.as_poly(fn(idx))
    return out


def pts(a):
    """list of the polys of a 1-D symbolic array"""
    return [a[i] for i in range(a.shape[0])]


def c(x):
    return Poly.const(x)
