"""Shared builders for the sidecar contracts (no code of /repo is copied here)."""
from __future__ import annotations
import numpy as np
import jax
import jax.numpy as jnp
import equinox as eqx

from vf import poly as P
from vf.poly import Poly
from vf.opaque import Opaque, OpaqueFn, OpaqueMLP, OpaqueLayer
from vf.jxinterp import sym_input
from vf.oblig import Inp, EqObligation, RaisesObligation, FnObligation

from jinns.utils._pinn import PINN
from jinns.parameters._params import Params, ParamsDict

TRUSTED_B = [
    "JAX tracer / autodiff / vmap are the semantics of the code (jax.make_jaxpr of the real functions)",
    "arithmetic is real arithmetic (no rounding, no overflow; NaN only as the predicate isnan)",
    "networks and user functions are C^4 and mixed partials commute (Schwarz)",
    "Engine B interpreter: hand-written semantics of arithmetic primitives and the ring normaliser "
    "(cross-checked numerically against native JAX execution on every obligation)",
    "structural primitives are executed by JAX itself on identifier arrays",
]


def ident_in(i, p):
    return i


def ident_out(i, o, p):
    return o


class Net:
    """a real jinns PINN around an opaque mlp  y -> F(concat(y, theta))"""

    def __init__(self, name, eq_type, d_in, m, p=1, slice_solution=None, output_slice=None,
                 input_transform=None, output_transform=None, positive=False, K=4):
        self.name, self.eq_type, self.d_in, self.m, self.p = name, eq_type, d_in, m, p
        self.F = Opaque(name, d_in + p, m, K=K, positive=positive)
        self.u = PINN(
            mlp=OpaqueMLP(theta=jnp.zeros((p,)), F=self.F),
            slice_solution=slice_solution if slice_solution is not None else jnp.s_[0:m],
            eq_type=eq_type,
            input_transform=input_transform or ident_in,
            output_transform=output_transform or ident_out,
            output_slice=output_slice,
        )

    def nn_params(self, theta):
        return eqx.tree_at(lambda m: m.theta, self.u.params, theta)

    def params(self, theta, eq_params=None):
        return Params(nn_params=self.nn_params(theta), eq_params=eq_params if eq_params is not None else {})

    def jet(self, theta):
        """returns n(j, point, derivs=()) -> Poly; point = list of polys for the network input"""
        th = [theta[i] for i in range(self.p)]

        def n(j, point, derivs=()):
            pt = list(point)
            assert len(pt) == self.d_in, (len(pt), self.d_in)
            return P.app(self.name, j, derivs, pt + th)
        return n


def arr(fn, shape):
    """object array built from fn(index tuple)"""
    out = np.empty(shape, dtype=object)
    if out.ndim == 0:
        out[()] = P.as_poly(fn(()))
        return out
    for idx in np.ndindex(*shape):
        out[idx] = P.as_poly(fn(idx))
    return out


def pts(a):
    """list of the polys of a 1-D symbolic array"""
    return [a[i] for i in range(a.shape[0])]


def c(x):
    return Poly.const(x)


# ------------------------------------------------------------------ loss objects are built outside the trace
SUBSTITUTED_AFTER_CONSTRUCTION = ("loss_weights", "initial_condition", "norm_samples", "norm_int_length", "derivative_keys")


def _standin(x):
    if isinstance(x, (jax.Array, np.ndarray, jax.core.Tracer)) or hasattr(x, "shape") and hasattr(x, "dtype"):
        dt = np.dtype(x.dtype)
        if dt == np.bool_:
            return np.zeros(np.shape(x), dtype=bool)
        return np.full(np.shape(x), 7.0 if np.issubdtype(dt, np.floating) else 3, dtype=dt)
    if isinstance(x, float):
        return 7.0
    return x


class _Path:
    """records the chain of attribute / item accesses of a `where` function"""
    def __init__(self, steps=()):
        object.__setattr__(self, "_steps", tuple(steps))
    def __getattr__(self, name):
        return _Path(self._steps + (("attr", name),))
    def __getitem__(self, key):
        return _Path(self._steps + (("item", key),))


def put_at(where, obj, value):
    """eqx.tree_at(where, obj, value) without the pytree round trip: shallow copies along the accessed paths, every
    dictionary of the object keeps the order its author wrote (tree_at rebuilds them all in sorted key order, which hides
    whatever depends on the written order).  `where` returns one node or a list / tuple of nodes."""
    import copy
    sel = where(_Path())
    multi = isinstance(sel, (list, tuple))
    paths = list(sel) if multi else [sel]
    values = list(value) if multi else [value]
    assert len(paths) == len(values)

    def upd(node, steps, v):
        if not steps:
            return v
        (kind, key), rest = steps[0], steps[1:]
        if kind == "attr":
            new = copy.copy(node)
            object.__setattr__(new, key, upd(getattr(node, key), rest, v))
            return new
        if isinstance(node, dict):
            new = dict(node)
            new[key] = upd(node[key], rest, v)
            return new
        if isinstance(node, (list, tuple)):
            items = list(node)
            items[key] = upd(node[key], rest, v)
            return type(node)(items) if not hasattr(node, "_fields") else type(node)(*items)
        raise TypeError(f"put_at: cannot index into {type(node)}")
    for pth, v in zip(paths, values):
        obj = upd(obj, pth._steps, v)
    return obj


def mk_loss(cls, **kw):
    """Construct a jinns loss object the way users do — outside any trace, with concrete data — and then put the symbolic
    weights / initial condition / normalisation data / derivative keys into the user-facing fields (as users re-weight or
    re-configure an existing loss; __post_init__ is not re-run).  The values the terms use must be those the object carries:
    copies made at construction (which eqx.tree_at does not refresh) are not the object's weights.  Construction runs
    under jax.ensure_compile_time_eval so that nothing of it is staged into the traced function."""
    conc = dict(kw)
    later = {}
    for k in SUBSTITUTED_AFTER_CONSTRUCTION:
        if k in kw and kw[k] is not None:
            later[k] = kw[k]
            conc[k] = jax.tree_util.tree_map(_standin, kw[k])
    if "params" in conc and conc["params"] is not None:            # InitVar: only used to build default derivative keys
        conc["params"] = jax.tree_util.tree_map(_standin, conc["params"])
    with jax.ensure_compile_time_eval():
        loss = cls(**conc)
    # a shallow copy whose user-facing fields are replaced, dictionaries kept exactly as written (eqx.tree_at would rebuild
    # every dictionary of the object in sorted key order and hide whatever depends on the order the caller wrote)
    import copy
    loss = copy.copy(loss)
    for k, v in later.items():
        object.__setattr__(loss, k, v)
    return loss
