"""
C14 — space-time batches are exact cartesian products (or exact pairings) (Engine A, unbounded sizes).
Under contract: make_cartesian_product, CubicMeshPDENonStatio.get_batch (the three *_batch callees are replaced by their
C09 contracts: they return a batch of the declared shape with arbitrary contents).
Postconditions: make_cartesian_product(b1, b2) has shape (n1*n2, d1+d2[, F]) and row i*n2 + j is (b1[i], b2[j]) for all
i < n1, j < n2 (time-major); (i, j) -> i*n2 + j is a bijection onto [0, n1*n2), so every pair appears exactly once;
get_batch: with the cartesian option the interior batch is product(t, x) and every facet of the border batch is
product(t, dx[:, :, facet]); without it row i is (t_i, x_i) (the border is still the product in 1-D); column 0 is time.
"""
import time
import z3
from contracts.common import FnObligation
from vf import pyvc
from vf.pyvc import Executor, Rec, SArr, Key, prove, zint

from vf.paths import R
SRC = R("/repo/jinns/data/_DataGenerators.py")
DG = "jinns.data._DataGenerators:"
META = dict(
    trusted_base=["Engine A: Python subset semantics and jnp models of vf/pyvc.py (repeat / tile / concatenate / reshape as index "
                  "transformations)", "z3 (non-linear integer arithmetic: (i*n2 + j) div n2 = i, mod = j)",
                  "the *_batch callees satisfy their C09 contracts (shape of the returned batch)"],
    bounded_in={"spatial dimension": "1..2 (array rank and column count are concrete)"},
    unbounded_in=["temporal, spatial and border batch sizes", "batch contents"],
    assumptions=[],
)
n1, n2, i_, j_, c_, f_, k_ = z3.Ints("n1 n2 i j c f k")


def arr(name, shape):
    fn = z3.Function(name, *([z3.IntSort()] * len(shape) + [z3.RealSort()]))
    return SArr(shape, lambda *k: fn(*[zint(x) for x in k]), "real")


def product_ob(d1, d2, F):
    name = f"C14/make_cartesian_product/ensures.row_i*n2+j_is_(b1[i],b2[j])[d1={d1},d2={d2},facets={F}]"
    def run(seed):
        t0 = time.time()
        ex = Executor([SRC])
        tail = (F,) if F else ()
        b1, b2 = arr("b1", (n1, d1) + tail), arr("b2", (n2, d2) + tail)
        outs = ex.call_function("make_cartesian_product", [b1, b2])
        outs = [o for o in outs if o.kind == "return"]
        if not outs:
            raise pyvc.Unsupported("make_cartesian_product: no normal return")
        for o in outs:          # one outcome per path the code distinguishes (e.g. a size threshold)
            out = o.value
            pre = [n1 >= 1, n2 >= 1, i_ >= 0, i_ < n1, j_ >= 0, j_ < n2, c_ >= 0, c_ < d1 + d2] + ([f_ >= 0, f_ < F] if F else [])
            ft = (f_,) if F else ()
            row = i_ * n2 + j_
            expect = z3.If(c_ < d1, b1.elem(i_, c_, *ft), b2.elem(j_, c_ - d1, *ft))
            goals = {
                "shape": z3.And(zint(out.shape[0]) == n1 * n2, zint(out.shape[1]) == d1 + d2, *( [zint(out.shape[2]) == F] if F else [])),
                "rows": out.elem(row, c_, *ft) == expect,
            }
            hints = [(i_ * n2 + j_) / n2 == i_, (i_ * n2 + j_) % n2 == j_]
            for nm, g in goals.items():
                st, model = prove(g, pre + list(o.pc), timeout_ms=20000)
                if st == "unknown":
                    # div/mod facts proved separately (lemma below) and then used as hints
                    st, model = prove(g, pre + list(o.pc) + hints, timeout_ms=20000)
                if st != "unsat":
                    return fail(name + "." + nm, st, model)
            for nm, pc_, g in ex.obligations:
                st, model = prove(g, pre + list(pc_), timeout_ms=10000)
                if st != "unsat":
                    return fail(name + ".side:" + nm, st, model)
        o = outs[0]
        out = o.value
        # vacuity canary: space-major order must be refuted
        wrong = z3.If(c_ < d1, b1.elem(j_, c_, *ft), b2.elem(i_, c_ - d1, *ft))
        cst, _ = prove(out.elem(row, c_, *ft) == wrong, pre + list(o.pc) + [n1 == n2], timeout_ms=10000)
        if cst == "unsat":
            return dict(status="error", detail="vacuity guard: space-major postcondition verified")
        return dict(status="discharged", backend="pyvc+z3", solver_s=time.time() - t0, canary="refuted",
                    sample=f"{ex.stmts_visited} statements executed; out[i*n2+j, c] == ite(c < {d1}, b1[i,c], b2[j,c-{d1}])")
    return FnObligation(name, run, [DG + "make_cartesian_product"], native_fallback=lambda: native_product({}))


def fail(name, st, model):
    if st == "unknown":
        return dict(status="undecided", backend="z3", detail=f"{name}: z3 unknown")
    vals = {str(d): str(model[d]) for d in model.decls() if d.arity() == 0}
    nat = native_product(vals)
    return dict(status="violated", failure="value", backend="pyvc+z3", detail=f"{name} refuted; counter-model {vals}",
                replay=dict(native_disagrees=bool(nat), solver_model=vals, native=nat or "native product agrees for these sizes",
                            expected="row i*n2+j == (b1[i], b2[j])", inputs=vals))


def native_get_batch():
    import numpy as np, jax
    from jinns.data._DataGenerators import CubicMeshPDENonStatio
    msgs = []
    for dim, cart, tb, ob, bb in [(1, False, 3, 3, None), (2, False, 2, 2, 2), (1, True, 2, 3, 1), (2, True, 3, 2, 2),
                                  (1, 0, 3, 3, None), (2, np.False_, 2, 2, 2), (2, False, 3, 3, 3), (1, True, 4, 4, 1), (2, True, 4, 5, 2)]:
        g = CubicMeshPDENonStatio(key=jax.random.PRNGKey(4), n=6, nb=(8 if dim == 2 else 2), nt=6, omega_batch_size=ob,
                                  omega_border_batch_size=(bb if dim == 2 else 1), temporal_batch_size=tb, dim=dim,
                                  min_pts=(0.0,) * dim, max_pts=(1.0,) * dim, tmin=5.0, tmax=6.0, cartesian_product=cart)
        for call in range(4):
            g1, x = g.inside_batch(); g2, dx = g1.border_batch(); g3, t = g2.temporal_batch()
            g, b_ = g.get_batch()
            tx, tdx = np.asarray(b_.times_x_inside_batch), np.asarray(b_.times_x_border_batch)
            t, x, dx = np.asarray(t), np.asarray(x), np.asarray(dx)
            if cart:
                exp = np.array([[t[i]] + list(x[j]) for i in range(tb) for j in range(ob)])
            else:
                exp = np.concatenate([t[:, None], x], axis=1)
            if tx.shape != exp.shape or not np.allclose(tx, exp):
                msgs.append(f"dim={dim}, cartesian={cart}: interior batch of shape {tx.shape}, expected the {'product' if cart else 'row-wise pairing'} of shape {exp.shape}")
                return msgs
            if cart and len(np.unique(np.round(tx, 9), axis=0)) != len(tx):
                # the factors are windows of distinct stored points, so every pair appears exactly once
                msgs.append(f"dim={dim}, cartesian product, nt=6, temporal batch size {tb}, call {call}: the interior batch has {len(tx)} rows but only "
                            f"{len(np.unique(np.round(tx, 9), axis=0))} distinct (t, x) pairs (times of the batch: {np.round(t, 4).tolist()})")
                return msgs
            nbr = dx.shape[0]
            if cart or dim == 1:
                expb = np.array([[[t[i]] * dx.shape[-1]] + [list(r) for r in dx[j]] for i in range(tb) for j in range(nbr)])
            else:
                expb = np.concatenate([np.repeat(t[:, None, None], dx.shape[-1], axis=2), dx], axis=1)
            if tdx.shape != expb.shape or not np.allclose(tdx, expb):
                msgs.append(f"dim={dim}, cartesian={cart}: border batch of shape {tdx.shape}, expected shape {expb.shape}")
                return msgs
    return None


def native_product(vals):
    try:
        m = native_get_batch()
        if m:
            return m
    except Exception:
        pass
    import numpy as np
    import jax.numpy as jnp
    from jinns.data._DataGenerators import make_cartesian_product
    try:      # the solver's sizes, as far as they can be run (products up to 2**18 rows)
        a, b = max(int(vals.get("n1", 2)), 1), max(int(vals.get("n2", 3)), 1)
        while a * b > 2 ** 18:
            a, b = (max(a // 2, 1), b) if a >= b else (a, max(b // 2, 1))
    except Exception:
        a, b = 2, 3
    msgs = []
    # the solver's sizes, two small ones, and a sweep of the second operand's size (index arithmetic done in floating point
    # fails for particular sizes only)
    for (a, b) in [(a, b), (2, 3), (3, 2)] + [(3, k) for k in range(4, 131)]:
        b1 = jnp.arange(a, dtype=float)[:, None] + 100.0
        b2 = jnp.arange(b, dtype=float)[:, None]
        out = np.asarray(make_cartesian_product(b1, b2))
        exp = np.stack([np.repeat(100.0 + np.arange(a), b), np.tile(np.arange(b, dtype=float), a)], axis=1)
        if out.shape != exp.shape:
            msgs.append(f"make_cartesian_product(n1={a}, n2={b}) has shape {out.shape}, expected {exp.shape}")
            break
        if not np.array_equal(out, exp):
            r = int(np.argmax((out != exp).any(axis=1)))
            msgs.append(f"make_cartesian_product(n1={a}, n2={b}): row {r} is {out[r].tolist()}, expected (b1[{r // b}], b2[{r % b}]) = {exp[r].tolist()}")
            break
    return msgs or None


def bijection_ob():
    name = "C14/lemma/pairing_is_a_bijection_onto_[0,n1*n2)"
    def run(seed):
        t0 = time.time()
        pre = [n1 >= 1, n2 >= 1]
        goals = {
            "into": z3.Implies(z3.And(i_ >= 0, i_ < n1, j_ >= 0, j_ < n2), z3.And(i_ * n2 + j_ >= 0, i_ * n2 + j_ < n1 * n2)),
            "div": z3.Implies(z3.And(i_ >= 0, j_ >= 0, j_ < n2), z3.And((i_ * n2 + j_) / n2 == i_, (i_ * n2 + j_) % n2 == j_)),
            "onto": z3.Implies(z3.And(k_ >= 0, k_ < n1 * n2),
                               z3.And(k_ / n2 >= 0, k_ / n2 < n1, k_ % n2 >= 0, k_ % n2 < n2, (k_ / n2) * n2 + k_ % n2 == k_)),
        }
        for nm, g in goals.items():
            st, model = prove(g, pre, timeout_ms=30000)
            if st == "unknown" and nm == "into":
                st, model = prove(g, pre + [z3.Implies(z3.And(i_ <= n1 - 1, n2 >= 1), i_ * n2 <= (n1 - 1) * n2),
                                            (n1 - 1) * n2 == n1 * n2 - n2], timeout_ms=30000)
            if st == "unknown" and nm == "onto":
                q = k_ / n2
                st, model = prove(g, pre + [z3.Implies(z3.And(q >= n1, n2 >= 1), q * n2 >= n1 * n2)], timeout_ms=30000)
            if st != "unsat":
                return fail(name + "." + nm, st, model) if st == "sat" else dict(status="undecided", detail=f"{nm}: z3 unknown")
        return dict(status="discharged", backend="z3", solver_s=time.time() - t0, sample="(i,j) -> i*n2+j ; k -> (k div n2, k mod n2)")
    return FnObligation(name, run, [DG + "make_cartesian_product"], native_fallback=lambda: native_product({}))


def get_batch_ob(dim, cartesian, with_border, flag=None):
    """flag: the object actually stored in cartesian_product (default: the bool itself).  Any falsy flag (False, 0, a numpy
    False) is what the constructor validates as "paired"; get_batch must then pair"""
    flag = cartesian if flag is None else flag
    name = (f"C14/CubicMeshPDENonStatio.get_batch/ensures[dim={dim},cartesian={int(cartesian)},border={int(with_border)}"
            f"{'' if flag is cartesian else ',flag_given_as=' + repr(flag)}]")
    def run(seed):
        t0 = time.time()
        ex = Executor([SRC, R("/repo/jinns/data/_Batchs.py")])
        bt, bx, bb = z3.Ints("bt bx bb")
        F = 2 * dim
        t, x = arr("t", (bt,)), arr("x", (bx, dim))
        dx = arr("dx", ((1 if dim == 1 else bb), dim, F)) if with_border else None
        MX, MB, MT = z3.Ints("cursor_after_inside_batch cursor_after_border_batch cursor_after_temporal_batch")
        rec = Rec("CubicMeshPDENonStatio", dict(temporal_batch_size=bt, omega_batch_size=bx,
                                                omega_border_batch_size=(bb if with_border else None), dim=dim,
                                                cartesian_product=flag, curr_omega_idx=z3.Int("cx0"), curr_omega_border_idx=z3.Int("cb0"),
                                                curr_time_idx=z3.Int("ct0")))
        # callees replaced by their contracts (C09): declared shape, arbitrary contents; each returns the generator with *its
        # own* cursor advanced (an unconstrained new value) and nothing else changed
        ex.contracts["CubicMeshPDEStatio.inside_batch"] = lambda ex_, fv, a, k, pc: [((fv.self_val.replace(curr_omega_idx=MX), x), pc)]
        ex.contracts["CubicMeshPDEStatio.border_batch"] = lambda ex_, fv, a, k, pc: [((fv.self_val.replace(curr_omega_border_idx=MB), dx), pc)]
        ex.contracts["CubicMeshPDENonStatio.temporal_batch"] = lambda ex_, fv, a, k, pc: [((fv.self_val.replace(curr_time_idx=MT), t), pc)]
        outs = ex.call_method(rec, "get_batch")
        if any(o.kind != "return" for o in outs):
            bad_ = [o for o in outs if o.kind != "return"][0]
            raise pyvc.PyRaise(str(bad_.value), "get_batch raises on a path the precondition allows") if bad_.kind == "raise" else pyvc.Unsupported("unexpected outcome")
        goals = {}
        for o in outs:          # every path the code may take (a branch on a symbolic size forks) satisfies the postcondition
            new, batch = o.value
            tx, tdx = batch.fields["times_x_inside_batch"], batch.fields["times_x_border_batch"]
            pre = [bt >= 1, bx >= 1, bb >= 1] + ([] if cartesian else [bt == bx] + ([bt == bb] if dim > 1 else []))
            # the returned generator is the three consumers' updates composed, each store keeping its own cursor
            goals["cursors_are_the_consumers_own"] = z3.And(
                zint(new.fields["curr_omega_idx"]) == MX, zint(new.fields["curr_time_idx"]) == MT,
                *([zint(new.fields["curr_omega_border_idx"]) == MB] if with_border else []))
            idx = [i_ >= 0, i_ < bt, j_ >= 0, c_ >= 0, c_ < 1 + dim, f_ >= 0, f_ < F]
            if cartesian:
                goals["interior_shape"] = z3.And(zint(tx.shape[0]) == bt * bx, zint(tx.shape[1]) == 1 + dim)
                goals["interior_rows"] = z3.Implies(j_ < bx, tx.elem(i_ * bx + j_, c_) == z3.If(c_ < 1, t.elem(i_), x.elem(j_, c_ - 1)))
            else:
                goals["interior_shape"] = z3.And(zint(tx.shape[0]) == bt, zint(tx.shape[1]) == 1 + dim)
                goals["interior_rows"] = tx.elem(i_, c_) == z3.If(c_ < 1, t.elem(i_), x.elem(i_, c_ - 1))
            if with_border:
                nb_rows = 1 if dim == 1 else bb
                if cartesian or dim == 1:
                    goals["border_shape"] = z3.And(zint(tdx.shape[0]) == bt * nb_rows, zint(tdx.shape[1]) == 1 + dim, zint(tdx.shape[2]) == F)
                    goals["border_rows"] = z3.Implies(j_ < nb_rows, tdx.elem(i_ * nb_rows + j_, c_, f_) ==
                                                      z3.If(c_ < 1, t.elem(i_), dx.elem(j_, c_ - 1, f_)))
                else:
                    goals["border_shape"] = z3.And(zint(tdx.shape[0]) == bt, zint(tdx.shape[1]) == 1 + dim, zint(tdx.shape[2]) == F)
                    goals["border_rows"] = tdx.elem(i_, c_, f_) == z3.If(c_ < 1, t.elem(i_), dx.elem(i_, c_ - 1, f_))
            else:
                if tdx is not None:
                    return dict(status="violated", failure="value", detail="border batch returned although no border was requested",
                                replay=dict(native_disagrees=False))
            hints = [(i_ * bx + j_) / bx == i_, (i_ * bx + j_) % bx == j_, (i_ * bb + j_) / bb == i_, (i_ * bb + j_) % bb == j_]
            for nm, g in goals.items():
                st, model = prove(g, pre + idx + list(o.pc), timeout_ms=20000)
                if st == "unknown":
                    hh = [z3.Implies(z3.And(j_ < bx), z3.And(hints[0], hints[1])), z3.Implies(z3.And(j_ < bb), z3.And(hints[2], hints[3]))]
                    st, model = prove(g, pre + idx + list(o.pc) + hh, timeout_ms=20000)
                if st != "unsat":
                    return fail(name + "." + nm, st, model)
            for nm, pc_, g in ex.obligations:
                st, model = prove(g, pre + list(pc_), timeout_ms=10000)
                if st != "unsat":
                    return fail(name + ".side:" + nm, st, model)
        return dict(status="discharged", backend="pyvc+z3", solver_s=time.time() - t0,
                    sample=f"{ex.stmts_visited} statements executed; goals {sorted(goals)}")
    return FnObligation(name, run, [DG + "CubicMeshPDENonStatio.get_batch", DG + "make_cartesian_product"],
                        native_fallback=lambda: native_product({}))


def obligations(tier):
    obs = [product_ob(1, 1, 0), product_ob(1, 2, 0), product_ob(1, 1, 2), product_ob(1, 2, 4), product_ob(2, 3, 0), bijection_ob()]
    for dim in (1, 2):
        for cart in (True, False):
            for border in (True, False):
                obs.append(get_batch_ob(dim, cart, border))
        obs.append(get_batch_ob(dim, False, True, flag=0))
        obs.append(get_batch_ob(dim, True, True, flag=1))
    # "one temporal batch", "one spatial batch": each factor is a window of batch-size distinct rows of its store (the
    # C09 contract of the three consumers, reported under C14)
    from contracts import c09
    for which, rar in (("CubicMeshPDENonStatio.temporal_batch", False), ("CubicMeshPDEStatio.inside_batch[dim=2]", False),
                       ("CubicMeshPDEStatio.border_batch", False), ("CubicMeshPDENonStatio.temporal_batch", True),
                       ("CubicMeshPDEStatio.inside_batch[dim=1]", True)):        # also for refining generators
        try:
            o = c09.consumer_ob(which, rar, "batch_is_window_of_store")
        except Exception:
            continue
        o.name = o.name.replace("C09/", "C14/factor/")
        obs.append(o)
    return obs
