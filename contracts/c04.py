"""
C04 — boundary term: per facet, weighted mean over the facet's border points of the squared mismatch between f and
the selected components of u (Dirichlet) or the derivative of u along the *outward* unit normal (Neumann),
1-D and 2-D, with and without time; facets ordered xmin, xmax, ymin, ymax; dict specifications apply each entry
to its own facet and skip None; result independent of f returning () or (1,), and of the number of time points.
Under contract: boundary_condition_apply, _compute_boundary_loss, boundary_{dirichlet,neumann}_{statio,nonstatio}
(PINN branches), and the wiring through LossPDEStatio / LossPDENonStatio.evaluate.
"""
from contracts.common import *
from jinns.loss._loss_utils import boundary_condition_apply
from jinns.loss import LossPDEStatio, LossPDENonStatio, LossWeightsPDEStatio, LossWeightsPDENonStatio
from jinns.data._Batchs import PDEStatioBatch, PDENonStatioBatch

META = dict(
    trusted_base=TRUSTED_B + ["facet order xmin,xmax,ymin,ymax of the generator's border batch (established by C08)"],
    bounded_in={"dimension": "1..2", "border points per facet": "1..2 (x time points 1..3)", "network outputs": "1..2",
                "f return shapes": "(), (1,), (k,)"},
    unbounded_in=["network (uninterpreted)", "boundary function f (uninterpreted)", "border point coordinates", "weight"],
    assumptions=[],
)
FN = ["jinns.loss._loss_utils:boundary_condition_apply", "jinns.loss._boundary_conditions:_compute_boundary_loss"]
FACETS = {1: ["xmin", "xmax"], 2: ["xmin", "xmax", "ymin", "ymax"]}
NORMALS = {1: [(-1,), (1,)], 2: [(-1, 0), (1, 0), (0, -1), (0, 1)]}


def bc_ob(cond, d, time, n_pts, m, sel, fshape, form, via="apply", tag_extra="", slice_solution=None, key_order=None, shared_fun=False,
          sel_by_facet=None):
    # shared_fun: one and the same callable object is given for every facet; sel_by_facet: facet -> slice (per-facet selections)
    """
    cond: 'dirichlet' | 'neumann' | dict facet-> 'dirichlet'/'neumann'/None (form == 'dict')
    sel: slice of outputs the condition applies to; fshape: shape returned by f; n_pts: border rows in the batch
    """
    F = 2 * d
    name = (f"C04/boundary[{'nonstatio' if time else 'statio'},d={d},cond={cond if isinstance(cond, str) else 'dict:' + ','.join(str(v) for v in cond.values())}"
            f",rows={n_pts},m={m},sel={sel.start}:{sel.stop},f={fshape},form={form},via={via}{tag_extra}]")
    conds = {fa: (cond if isinstance(cond, str) else cond[fa]) for fa in FACETS[d]}
    def build():
        din = d + (1 if time else 0)
        # the selection is relative to the network's *output*, whatever part of it is declared to be the solution
        net = Net("Nb", "nonstatio_PDE" if time else "statio_PDE", din, m, slice_solution=slice_solution)
        fs = {fa: OpaqueFn(f"f_{fa}" if (form == "dict" and not shared_fun) else "f", [(din,)], fshape) for fa in FACETS[d]}
        _one = {}
        def user_f(fa):
            g = fs[fa]
            if shared_fun and "f" in _one:
                return _one["f"]
            h = (lambda t, x: g(jnp.concatenate([t, x]))) if time else (lambda x: g(x))
            _one["f"] = h
            return h
        bshape = (n_pts, din, F)
        def fn(th, bb, w):
            params = net.params(th)
            if time:
                batch = PDENonStatioBatch(times_x_inside_batch=jnp.zeros((1, din)), times_x_border_batch=bb)
            else:
                batch = PDEStatioBatch(inside_batch=jnp.zeros((1, din)), border_batch=bb)
            if form == "dict":
                # the dictionaries may be written in any key order: an entry belongs to the facet it *names*
                order = key_order or FACETS[d]
                fun = {fa: (user_f(fa) if conds[fa] is not None else None) for fa in order}
                cnd = {fa: conds[fa] for fa in order}
                dim = {fa: (sel.start if via == "evaluate_int" else (sel_by_facet[fa] if sel_by_facet else sel)) for fa in order}
            else:
                fun, cnd, dim = user_f(FACETS[d][0]), cond, sel
            if via == "apply":
                return boundary_condition_apply(net.u, batch, params, fun, cnd, dim, w)
            if time:
                loss = mk_loss(LossPDENonStatio, u=net.u, dynamic_loss=None, params=params, omega_boundary_fun=fun,
                                        omega_boundary_condition=cnd, omega_boundary_dim=dim if form == "dict" or sel.stop - sel.start != 1 or via != "evaluate_int" else sel.start,
                                        loss_weights=LossWeightsPDENonStatio(boundary_loss=w))
            else:
                loss = mk_loss(LossPDEStatio, u=net.u, dynamic_loss=None, params=params, omega_boundary_fun=fun,
                                     omega_boundary_condition=cnd, omega_boundary_dim=dim if form == "dict" or sel.stop - sel.start != 1 or via != "evaluate_int" else sel.start,
                                     loss_weights=LossWeightsPDEStatio(boundary_loss=w))
            return loss.evaluate(params, batch)[1]["boundary_loss"]
        def spec(th, bb, w, wrong=False):
            n = net.jet(th)
            tot = P.ZERO
            for fi, fa in enumerate(FACETS[d]):
                cf = conds[fa]
                if cf is None:
                    continue
                comps = list(range(m))[sel_by_facet[fa] if sel_by_facet else sel]
                fname = fs[fa].name
                per = []
                for i in range(n_pts):
                    pt = [bb[i, l, fi] for l in range(din)]
                    fval = [P.app(fname, (j if len(fshape) and fshape[0] > 1 else 0), (), pt) for j in range(len(comps))]
                    if cf.lower().startswith("d"):
                        sq = sum(((n(cj, pt) - fval[k]) ** 2 for k, cj in enumerate(comps)), P.ZERO)
                    else:
                        assert len(comps) == 1
                        nrm = NORMALS[d][fi]
                        if wrong:
                            nrm = tuple(-v for v in nrm)
                        off = 1 if time else 0
                        dn = sum((c(nrm[l]) * n(comps[0], pt, (off + l,)) for l in range(d)), P.ZERO)
                        sq = (dn - fval[0]) ** 2
                    per.append(w[()] * sq)
                tot = tot + sum(per, P.ZERO) * c(1) / n_pts
            if wrong and all((v or "d").lower().startswith("d") for v in conds.values()):
                tot = tot * c(2)
            return arr(lambda _: tot, ())
        return dict(fn=fn, spec=spec, canary=lambda *a: spec(*a, wrong=True),
                    inputs=[Inp("th", (1,)), Inp("bb", bshape), Inp("w", ())])
    kinds = set(v.lower()[0] for v in conds.values() if v)
    fns = list(FN)
    for k in kinds:
        fns.append("jinns.loss._boundary_conditions:boundary_" + ("dirichlet" if k == "d" else "neumann") + ("_nonstatio" if time else "_statio"))
    return EqObligation(name, build, fns)


def obligations(tier):
    s01, s12, s02 = slice(0, 1), slice(1, 2), slice(0, 2)
    obs = []
    for time in (False, True):
        for d in (1, 2):
            rows_list = [1] if (d == 1 and not time) else ([1, 2] if tier == "quick" else [1, 2, 3])
            for rows in rows_list:
                # Dirichlet: scalar / (1,) / vector f, global spec
                obs.append(bc_ob("dirichlet", d, time, rows, 1, s01, (1,), "global"))
                obs.append(bc_ob("dirichlet", d, time, rows, 1, s01, (), "global"))
                obs.append(bc_ob("dirichlet", d, time, rows, 2, s02, (2,), "global"))
                obs.append(bc_ob("dirichlet", d, time, rows, 2, s12, (1,), "global"))
                # Neumann: f returning (1,) and ()
                obs.append(bc_ob("neumann", d, time, rows, 1, s01, (1,), "global"))
                obs.append(bc_ob("neumann", d, time, rows, 1, s01, (), "global"))
                obs.append(bc_ob("neumann", d, time, rows, 2, s12, (1,), "global"))
            rows = rows_list[-1]
            fac = FACETS[d]
            # per-facet dictionaries: own condition per facet, None skipped
            mixed = {fa: ("dirichlet" if i % 2 == 0 else "neumann") for i, fa in enumerate(fac)}
            skip = {fa: (None if i == 1 else "dirichlet") for i, fa in enumerate(fac)}
            skipn = {fa: (None if i == 0 else "neumann") for i, fa in enumerate(fac)}
            obs.append(bc_ob(mixed, d, time, rows, 1, s01, (1,), "dict"))
            obs.append(bc_ob(skip, d, time, rows, 1, s01, (1,), "dict"))
            obs.append(bc_ob(skipn, d, time, rows, 1, s01, (1,), "dict"))
            obs.append(bc_ob({fa: "dirichlet" for fa in fac}, d, time, rows, 2, s12, (1,), "dict"))
            # wiring through the loss classes (slice given as int is normalised to a slice)
            obs.append(bc_ob("dirichlet", d, time, rows, 2, s12, (1,), "global", via="evaluate_int"))
            obs.append(bc_ob("dirichlet", d, time, rows, 2, s01, (1,), "global", via="evaluate_int"))      # component given as the int 0
            obs.append(bc_ob({fa: "dirichlet" for fa in fac}, d, time, rows, 2, s01, (1,), "dict", via="evaluate_int"))
            obs.append(bc_ob("neumann", d, time, rows, 2, s01, (1,), "global", via="evaluate_int"))
            obs.append(bc_ob("neumann", d, time, rows, 1, s01, (1,), "global", via="evaluate"))
            # one callable object shared by all facets, a different component on the x- and on the y-facets (no-penetration walls)
            sbf = {fa: (s01 if i < 2 else s12) for i, fa in enumerate(fac)}
            for cnd_ in ("dirichlet", "neumann"):
                obs.append(bc_ob({fa: cnd_ for fa in fac}, d, time, rows, 2, s01, (1,), "dict", via="evaluate", shared_fun=True, sel_by_facet=sbf,
                                 tag_extra=",one_function_object_for_all_facets,selection_per_facet"))
            # every spelling the constructor accepts selects the same condition
            for sp_ in ("vonneumann", "Von Neumann", "Dirichlet"):
                obs.append(bc_ob(sp_, d, time, rows, 1, s01, (1,), "global", via="evaluate"))
            obs.append(bc_ob({fa: ("vonneumann" if i % 2 else "von neumann") for i, fa in enumerate(fac)}, d, time, rows, 1, s01, (1,), "dict", via="evaluate"))
            obs.append(bc_ob(mixed, d, time, rows, 1, s01, (1,), "dict", via="evaluate"))
            # a network whose declared solution is only a part of its output: the selection still indexes the output
            for cnd_ in ("dirichlet", "neumann"):
                for sl in (s01, s12):
                    obs.append(bc_ob(cnd_, d, time, rows, 2, sl, (1,), "global", tag_extra=",slice_solution=1:2",
                                     slice_solution=jnp.s_[1:2]))
            obs.append(bc_ob("dirichlet", d, time, rows, 2, s02, (2,), "global", tag_extra=",slice_solution=1:2",
                             slice_solution=jnp.s_[1:2]))
            # per-facet dictionaries with unconditioned facets before / between conditioned ones, the component given as
            # an int, f returning a scalar: every conditioned facet's int is normalised
            r2 = max(rows, 2)
            for none_at in range(len(fac)):
                dct = {fa: (None if i == none_at else "dirichlet") for i, fa in enumerate(fac)}
                if tier == "quick" and 0 < none_at < len(fac) - 1 and none_at != 1:
                    continue
                obs.append(bc_ob(dct, d, time, r2, 2, s12, (), "dict", via="evaluate_int"))
            obs.append(bc_ob(skipn, d, time, r2, 2, s12, (), "dict", via="evaluate_int"))
            # dictionaries written in another key order than xmin, xmax, ymin, ymax
            rev = list(reversed(fac))
            rot = fac[2:] + fac[:2] if d == 2 else rev
            for via_ in ("apply", "evaluate"):
                obs.append(bc_ob(mixed, d, time, rows, 1, s01, (1,), "dict", via=via_, tag_extra=",keys_written=" + "/".join(rot), key_order=rot))
            obs.append(bc_ob(skipn, d, time, rows, 1, s01, (1,), "dict", tag_extra=",keys_written=" + "/".join(rev), key_order=rev))
    # separable networks (forward-mode branches of the four boundary functions): the C11 contract, reported under C04
    from contracts import c11
    for cond in ("d", "n"):
        for time in (False, True):
            for dx in (1, 2):
                for facet in range(2 * dx):
                    o = c11.boundary_ob(cond, time, dx, 1, 2, facet)
                    o.name = o.name.replace("C11/", "C04/").replace("grid_entry_equals_pointwise", "ensures.grid")
                    obs.append(o)
                    if facet == 2 * dx - 1:         # several outputs, a selection of two components
                        o = c11.boundary_ob(cond, time, dx, 1, 2, facet, m=3, sel=jnp.s_[1:3])
                        o.name = o.name.replace("C11/", "C04/").replace("grid_entry_equals_pointwise", "ensures.grid")
                        obs.append(o)
    # the boundary term inside a system loss is the per-unknown boundary term built with that unknown's own condition,
    # function and component selection (C13 contract, reported under C04)
    from contracts import c13
    for kind in ("statio", "nonstatio"):
        o = c13.per_unknown_config(kind)
        o.name = o.name.replace("C13/", "C04/system/")
        obs.append(o)
    # "that facet's border points", "facets are ordered xmin, xmax, ymin, ymax": the border batches of the library's own
    # generators put facet k's points on facet k (C08 well-formedness of the 2-D border store, reported under C04)
    from contracts import c08
    for cls in ("CubicMeshPDEStatio", "CubicMeshPDENonStatio"):
        o = c08.space_ctor(cls, 2, "uniform", True)
        o.name = o.name.replace("C08/", "C04/border_points/")
        obs.append(o)
    return obs
