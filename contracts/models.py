"""
Conformance of Engine A's library models with real JAX on small concrete instances, and of the *assumed* dependency
contracts (jax.random.choice / uniform, jnp.argsort, jax.lax.top_k, jnp.unravel_index) with real JAX on samples.
This is a sanity check of the trusted base (DESIGN §1.1, §3) — bounded, never counted as proved.
"""
import itertools
import numpy as np
import z3
import jax
import jax.numpy as jnp
from vf import pyvc
from vf.pyvc import SArr, Executor, LIB


def _at(a, i, default):
    idx = tuple(int(_c(x)) for x in i)
    if any(k < 0 or k >= n for k, n in zip(idx, a.shape)):
        return default          # the models are total functions; values outside the array are never selected
    return a[idx]


def sarr(a):
    a = np.asarray(a, dtype=float)
    return SArr(a.shape, lambda *i: float(_at(a, i, 123456789.0)), "real")


def iarr(a):
    a = np.asarray(a)
    return SArr(a.shape, lambda *i: int(_at(a, i, -10 ** 6)), "int")


def _c(x):
    if pyvc.is_z3(x):
        s = z3.simplify(x)
        if z3.is_int_value(s):
            return s.as_long()
        if z3.is_rational_value(s):
            return float(s.as_fraction())
        if z3.is_true(s) or z3.is_false(s):
            return bool(z3.is_true(s))
        raise ValueError(f"not a constant: {s}")
    return x


def mat(s):
    shape = tuple(int(_c(x)) for x in s.shape)
    out = np.empty(shape, dtype=float)
    for idx in np.ndindex(*shape):
        v = s.elem(*idx)
        out[idx] = float(_c(v))
    return out


def run(seed=0):
    rng = np.random.default_rng(seed)
    ex = Executor([])
    bad, n = [], 0

    def chk(name, got, exp):
        nonlocal n
        n += 1
        exp = np.asarray(exp, dtype=float)
        if got.shape != exp.shape or not np.allclose(got, exp, equal_nan=True):
            bad.append(f"{name}: model {got.tolist()} vs jax {exp.tolist()}")

    A = rng.normal(size=(3, 2))
    B_ = rng.normal(size=(4, 2))
    v = rng.normal(size=(5,))
    for reps in (1, 2, 3):
        chk(f"repeat({reps},axis=0)", mat(LIB["jnp.repeat"](ex, [sarr(A), reps], {"axis": 0}, [])), jnp.repeat(A, reps, axis=0))
        chk(f"tile(({reps},1))", mat(LIB["jnp.tile"](ex, [sarr(A)], {"reps": (reps, 1)}, [])), jnp.tile(A, (reps, 1)))
    T3 = rng.normal(size=(2, 1, 3))
    chk("repeat(axis=2)", mat(LIB["jnp.repeat"](ex, [sarr(T3), 2], {"axis": 2}, [])), jnp.repeat(T3, 2, axis=2))
    chk("tile rank3", mat(LIB["jnp.tile"](ex, [sarr(T3)], {"reps": (2, 1, 1)}, [])), jnp.tile(T3, (2, 1, 1)))
    for axis in (0, 1, -1):
        other = B_ if axis == 0 else rng.normal(size=(3, 4))
        chk(f"concatenate(axis={axis})", mat(LIB["jnp.concatenate"](ex, [[sarr(A), sarr(other)]], {"axis": axis}, [])),
            jnp.concatenate([A, other], axis=axis))
    chk("hstack", mat(LIB["jnp.hstack"](ex, [[sarr(A), sarr(A[:, :1])]], {}, [])), jnp.hstack([A, A[:, :1]]))
    chk("stack(axis=-1)", mat(LIB["jnp.stack"](ex, [[sarr(A), sarr(2 * A), sarr(3 * A)]], {"axis": -1}, [])), jnp.stack([A, 2 * A, 3 * A], axis=-1))
    for start in (-2, 0, 1, 3, 4, 9):
        chk(f"dynamic_slice(start={start})", mat(LIB["jax.lax.dynamic_slice"](ex, [sarr(v)], {"start_indices": (start,), "slice_sizes": (2,)}, [])),
            jax.lax.dynamic_slice(v, (start,), (2,)))
        chk(f"dynamic_update_slice(start={start})", mat(LIB["jax.lax.dynamic_update_slice"](ex, [sarr(v), sarr([7.0, 8.0]), (start,)], {}, [])),
            jax.lax.dynamic_update_slice(jnp.asarray(v), jnp.asarray([7.0, 8.0]), (start,)))
    chk("dynamic_slice 2-D", mat(LIB["jax.lax.dynamic_slice"](ex, [sarr(B_)], {"start_indices": (3, 0), "slice_sizes": (2, 2)}, [])),
        jax.lax.dynamic_slice(B_, (3, 0), (2, 2)))
    chk("dynamic_update_slice 2-D clamped column", mat(LIB["jax.lax.dynamic_update_slice"](ex, [sarr(B_), sarr(A[:2]), (1, 2)], {}, [])),
        jax.lax.dynamic_update_slice(jnp.asarray(B_), jnp.asarray(A[:2]), (1, 2)))
    for k in (0, 2, 5):
        chk(f"at[:{k}].set", mat(pyvc.arr_at_set(ex, pyvc.AtProxy(sarr(v), ("slice", None, k, None)), 9.5, [])), jnp.asarray(v).at[:k].set(9.5))
    idx = np.array([2, 0, 3])
    chk("take in range", mat(LIB["jnp.take"](ex, [sarr(B_), iarr(idx)], {"axis": 0}, [])), jnp.take(B_, idx, axis=0))
    got = LIB["jnp.take"](ex, [sarr(v), iarr(np.array([1, 7]))], {"axis": 0}, [])
    n += 1
    if not np.isnan(np.asarray(jnp.take(v, np.array([1, 7]), axis=0))[1]) or not pyvc.is_z3(got.elem(1)) and not np.isnan(got.elem(1)):
        bad.append("take out of range: jax fills NaN; the model must yield an unconstrained value")
    chk("arange(n)", mat(LIB["jnp.arange"](ex, [4], {}, [])), jnp.arange(4))
    chk("linspace(endpoint=False)", mat(LIB["jnp.linspace"](ex, [-1.0, 2.0, 6], {"endpoint": False}, [])), jnp.linspace(-1.0, 2.0, 6, endpoint=False))
    X, Y = LIB["jnp.meshgrid"](ex, [sarr(v[:3]), sarr(v[:2])], {}, [])
    JX, JY = jnp.meshgrid(v[:3], v[:2])
    chk("meshgrid X", mat(X), JX)
    chk("meshgrid Y", mat(Y), JY)
    chk("zeros", mat(LIB["jnp.zeros"](ex, [(2, 3)], {}, [])), jnp.zeros((2, 3)))
    chk("ones", mat(LIB["jnp.ones"](ex, [(3, 1)], {}, [])), jnp.ones((3, 1)))
    # indexing forms
    chk("x[:, None]", mat(pyvc.arr_getitem(sarr(v), (("slice", None, None, None), None))), v[:, None])
    chk("x[None, None]", mat(pyvc.arr_getitem(sarr(v[:2]), (None, None))), v[:2][None, None])
    chk("x[1:3]", mat(pyvc.arr_getitem(sarr(B_), ("slice", 1, 3, None))), B_[1:3])
    chk("x[..., 1]", mat(pyvc.arr_getitem(sarr(T3), (Ellipsis, 1))), T3[..., 1])
    chk("x[idx] fancy", mat(pyvc.arr_getitem(sarr(B_), iarr(idx))), B_[idx])
    chk("x[:, 0:1, 2]", mat(pyvc.arr_getitem(sarr(T3), (("slice", None, None, None), ("slice", 0, 1, None), 2))), T3[:, 0:1, 2])
    # reshape forms used by the generators
    chk("reshape (n,)->(n,1)", mat(pyvc.reshape(ex, sarr(v), (5, 1), [])), v.reshape(5, 1))
    chk("reshape (n,)->(n,1,1)", mat(pyvc.reshape(ex, sarr(v), (5, 1, 1), [])), v.reshape(5, 1, 1))
    chk("reshape (6,)->(2,3)", mat(pyvc.reshape(ex, sarr(np.arange(6.0)), (2, 3), [])), np.arange(6.0).reshape(2, 3))
    chk("reshape (2,3)->(6,1)", mat(pyvc.reshape(ex, sarr(np.arange(6.0).reshape(2, 3)), (6, 1), [])), np.arange(6.0).reshape(6, 1))
    chk("flatten (2,3)", mat(pyvc.flatten(ex, sarr(np.arange(6.0).reshape(2, 3)))), np.arange(6.0))
    # broadcasting binop
    import ast
    chk("(n,1)*(n,1)", mat(pyvc.arr_binop(ex, ast.Mult(), sarr(A[:, :1]), sarr(A[:, 1:]), [])), A[:, :1] * A[:, 1:])
    chk("scalar*array", mat(pyvc.arr_binop(ex, ast.Mult(), 2.5, sarr(A), [])), 2.5 * A)
    chk("array+arange", mat(pyvc.arr_binop(ex, ast.Add(), 3, LIB["jnp.arange"](ex, [4], {}, []), [])), 3 + np.arange(4))
    q, r = LIB["jnp.divmod"](ex, [iarr(np.arange(7)), 3], {}, [])
    chk("divmod q", mat(q), np.arange(7) // 3)
    chk("divmod r", mat(r), np.arange(7) % 3)
    a_, b__ = LIB["jnp.unravel_index"](ex, [iarr(np.array([5, 0, 7])), (3, 4)], {}, [])
    ua, ub = jnp.unravel_index(np.array([5, 0, 7]), (3, 4))
    chk("unravel_index rows", mat(a_), ua)
    chk("unravel_index cols", mat(b__), ub)
    return bad, n


def dependency_contracts(seed=0):
    """the assumed contracts hold on samples of the real library"""
    bad, n = [], 0
    key = jax.random.PRNGKey(seed)
    for size, m in [(6, 6), (7, 3), (9, 4), (5, 1)]:
        key, k1, k2 = jax.random.split(key, 3)
        a = jnp.arange(size, dtype=float) + 100.0
        p = jnp.zeros((size,)).at[:m].set(1.0 / m)
        for pp in (None, p):
            out = np.asarray(jax.random.choice(k1, a, shape=(size,), replace=False, p=pp))
            n += 1
            if sorted(out.tolist()) != sorted(np.asarray(a).tolist()):
                bad.append(f"choice(size={size}, p={'given' if pp is not None else 'None'}) is not a permutation: {out.tolist()}")
            if pp is not None and not set(out[:m].tolist()) == set(np.asarray(a)[:m].tolist()):
                bad.append(f"choice with p: rows with p == 0 are not last: {out.tolist()} (m={m})")
        u = np.asarray(jax.random.uniform(k2, (50,), minval=-3.0, maxval=-1.5))
        n += 1
        if u.min() < -3.0 or u.max() > -1.5:
            bad.append("uniform outside [minval, maxval]")
        x = np.asarray(jax.random.normal(k2, (size,)))
        s = np.asarray(jnp.argsort(x))
        n += 1
        if sorted(s.tolist()) != list(range(size)) or np.any(np.diff(x[s]) < 0):
            bad.append("argsort is not the ascending sorting permutation")
        vals, idx = jax.lax.top_k(jnp.asarray(x), k=min(3, size))
        n += 1
        if np.any(np.diff(np.asarray(vals)) > 0) or not np.allclose(np.sort(x)[::-1][:min(3, size)], np.asarray(vals)):
            bad.append("top_k does not return the k largest, largest first")
    return bad, n
