"""
Driving the real jinns.solve with uninterpreted generator / loss / optimiser / validation, and capturing the real
`_one_iteration` / `break_fun` closures by replacing jax.lax.while_loop with a recorder while tracing.
"""
from __future__ import annotations
from typing import Any
import optax
from contracts.common import *
import jinns
import jinns.solver._solve as solve_mod
from jinns.data._Batchs import ODEBatch
from jinns.validation._validation import AbstractValidationModule

NT = 2          # number of loss terms of the opaque loss
# the loss declares its terms in this order, which is not the alphabetical one (jit / scan rebuild dictionaries sorted)
TERM_NAMES = ("zeta_term", "alpha_term")
B = 2           # batch size
KS = 1          # generator state size


class OGen(eqx.Module):
    """uninterpreted data generator: get_batch() -> (OGen(G(state)), ODEBatch(Bt(state)))"""
    state: jax.Array
    rar_parameters: Any = eqx.field(static=True, default=None)
    name: str = eqx.field(static=True, default="g")

    def get_batch(self):
        G, Bt = registry()["G" + self.name], registry()["B" + self.name]
        return OGen(G(self.state), self.rar_parameters, self.name), ODEBatch(temporal_batch=Bt(self.state))


class OParGen(eqx.Module):
    state: jax.Array
    param_batch_size: int = eqx.field(static=True, default=B)

    def get_batch(self):
        return OParGen(registry()["Gp"](self.state), self.param_batch_size), {"a": jnp.reshape(registry()["Bp"](self.state), (B, 1))}


class OObsGen(eqx.Module):
    state: jax.Array
    obs_batch_size: int = eqx.field(static=True, default=B)

    def get_batch(self):
        o = registry()["Bo"](self.state)
        return OObsGen(registry()["Go"](self.state), self.obs_batch_size), \
            {"pinn_in": jnp.reshape(o[:B], (B, 1)), "val": jnp.reshape(o[B:], (B, 1)), "eq_params": {}}


from vf.opaque import registry


def flat_batch(batch):
    parts = [jnp.reshape(batch.temporal_batch, (-1,))]
    if batch.param_batch_dict is not None:
        parts.append(jnp.reshape(batch.param_batch_dict["a"], (-1,)))
    if batch.obs_batch_dict is not None:
        parts.append(jnp.reshape(batch.obs_batch_dict["pinn_in"], (-1,)))
        parts.append(jnp.reshape(batch.obs_batch_dict["val"], (-1,)))
    return jnp.concatenate(parts)


class OLoss(eqx.Module):
    """uninterpreted loss: L(params, batch) -> (total, {"t0":..,"t1":..}); w is a leaf so that the loss object is data"""
    w: jax.Array
    nb: int = eqx.field(static=True)

    def __call__(self, params, batch):
        fb = flat_batch(batch)
        L = registry()[f"L{fb.shape[0]}"]       # the loss of whatever parts the batch actually carries
        y = L(jnp.concatenate([params.nn_params, jnp.reshape(params.eq_params["a"], (1,)), self.w, fb]))
        return y[0], {TERM_NAMES[j]: y[1 + j] for j in range(NT)}

    evaluate = __call__


def nb_of(with_param, with_obs):
    return B + (B if with_param else 0) + (2 * B if with_obs else 0)


def make_opaques(p):
    """(re)create every uninterpreted function used by the solve scenarios; p = number of network parameters"""
    Opaque("Gg", KS, KS); Opaque("Bg", KS, B)
    Opaque("Gv", KS, KS); Opaque("Bv", KS, B)
    Opaque("Gp", KS, KS); Opaque("Bp", KS, B)
    Opaque("Go", KS, KS); Opaque("Bo", KS, 2 * B)
    for wp in (False, True):
        for wo in (False, True):
            nb = nb_of(wp, wo)
            Opaque(f"L{nb}", p + 1 + 1 + nb, 1 + NT)
    so = 2                                  # optimiser state size
    Opaque("Oinit", p + 1, so)
    Opaque("Oupd", (p + 1) + so + (p + 1), (p + 1) + so)
    Opaque("Val", KS + p + 1, 3)           # validation module: (crit, stop-score, improve-score)
    Opaque("Vst", KS + p + 1, KS)
    Opaque("Rar", KS + p + 1 + 1, KS)       # refinement: new generator state from (state, current params, iteration)
    return so


def flat_params(params):
    return jnp.concatenate([params.nn_params, jnp.reshape(params.eq_params["a"], (1,))])


def unflat_params(v, p):
    return Params(nn_params=v[:p], eq_params={"a": v[p]})


def opaque_optimizer(p):
    def init(params):
        return registry()["Oinit"](flat_params(params))
    def update(grads, state, params=None):
        y = registry()["Oupd"](jnp.concatenate([flat_params(grads), state, flat_params(params)]))
        return unflat_params(y[:p + 1], p), y[p + 1:]
    return optax.GradientTransformation(init, update)


class OVal(AbstractValidationModule):
    """uninterpreted validation module"""
    state: jax.Array
    call_every: int = eqx.field(kw_only=True, default=2)

    def __call__(self, params):
        z = jnp.concatenate([self.state, flat_params(params)])
        y = registry()["Val"](z)
        new = OVal(registry()["Vst"](z), call_every=self.call_every)
        return new, y[1] > 0, y[0], y[2] > 0


import contextlib


@contextlib.contextmanager
def rar_contract(active=True):
    """solve's refinement calls replaced by their contracts (C16 / C17): init_rar returns the generator unchanged;
    trigger_rar(i, loss, params, data, ..) returns the loss and the parameters *unchanged* and a generator refined from
    (its state, the parameters it was given, i).  Which parameters solve hands over is thereby observable."""
    if not active:
        yield
        return
    old = (solve_mod.trigger_rar, solve_mod.init_rar)

    def init_c(data):
        return data, "rar_step_true", "rar_step_false"

    def trig_c(i, loss, params, data, ft, ff):
        z = jnp.concatenate([data.state, flat_params(params), jnp.reshape(jnp.asarray(i, dtype=data.state.dtype), (1,))])
        return loss, params, OGen(registry()["Rar"](z), data.rar_parameters, data.name)
    solve_mod.trigger_rar, solve_mod.init_rar = trig_c, init_c
    try:
        yield
    finally:
        solve_mod.trigger_rar, solve_mod.init_rar = old


class Capture:
    """trace solve once with jax.lax.while_loop replaced by a recorder"""

    def __init__(self):
        self.rec = {}

    def solve(self, final_leaves=None, **kw):
        rec = self.rec
        real = jax.lax.while_loop

        def fake(cond, body, carry):
            leaves, treedef = jax.tree_util.tree_flatten(carry, is_leaf=lambda x: x is None)
            rec.update(cond=cond, body=body, carry=carry, treedef=jax.tree_util.tree_structure(carry),
                       avals=[(jnp.shape(l), jnp.asarray(l).dtype) for l in jax.tree_util.tree_leaves(carry)])
            if final_leaves is not None:
                return jax.tree_util.tree_unflatten(rec["treedef"], list(final_leaves))
            return carry
        jax.lax.while_loop = fake
        rar = kw.pop("_rar_contract", False)
        try:
            kw.setdefault("verbose", False)
            with rar_contract(rar):
                out = jinns.solve(**kw)
        finally:
            jax.lax.while_loop = real
        return out
