"""
C13 — a system loss is the weighted composition of its equations and unknowns.
Under contract: SystemLossODE / SystemLossPDE.__post_init__, set_loss_weights, evaluate,
constraints_system_loss_apply, ParamsDict.extract_params.
dyn term == sum_e w_e * mean_i sum_c R^e_c(t_i, x_i, all networks, all parameters)^2 with the equation called in the
documented argument order; every other term == sum_u w^u_term * (single-network term of unknown u);
scalar weights broadcast, per-key dicts honoured, None means 0; #equations and #unknowns independent;
a one-equation one-unknown system equals the plain loss.
"""
from typing import Any
from contracts.common import *
from contracts.lossutil import mean
from jinns.loss._DynamicLossAbstract import ODE, PDEStatio, PDENonStatio
from jinns.loss import (SystemLossODE, SystemLossPDE, LossODE, LossPDENonStatio, LossWeightsODEDict, LossWeightsPDEDict,
                        LossWeightsODE, LossWeightsPDENonStatio)
from jinns.data._Batchs import ODEBatch, PDEStatioBatch, PDENonStatioBatch

META = dict(
    trusted_base=TRUSTED_B,
    bounded_in={"equations": "1..3", "unknowns": "1..2", "batch size": "2", "weight forms": "scalar / per-key dict / None per term"},
    unbounded_in=["equations (uninterpreted residual maps)", "networks", "weights", "batches", "initial / boundary / observation data"],
    assumptions=[],
)
UK = ["u", "v"]
EK = ["e1", "e2", "e3"]


class _SysEq:
    def _gather(self, pt, call, u_dict, params_dict):
        parts = [pt]
        for k in self.ukeys:
            pk = params_dict.extract_params(k)
            f = lambda q, k=k, pk=pk: call(u_dict[k], q, pk)
            parts += [f(pt), jax.jacfwd(f)(pt).reshape(-1)]
        parts.append(jnp.reshape(params_dict.eq_params["a"], (1,)))
        return self.R(jnp.concatenate(parts))


class SysODE(ODE, _SysEq):
    R: Any = eqx.field(static=True, kw_only=True)
    ukeys: tuple = eqx.field(static=True, kw_only=True)
    def equation(self, t, u_dict, params_dict):
        return self._gather(jnp.reshape(t, (1,)), lambda u, q, p: u(q, p), u_dict, params_dict)


class SysStatio(PDEStatio, _SysEq):
    R: Any = eqx.field(static=True, kw_only=True)
    ukeys: tuple = eqx.field(static=True, kw_only=True)
    def equation(self, x, u_dict, params_dict):
        return self._gather(x, lambda u, q, p: u(q, p), u_dict, params_dict)


class SysNonStatio(PDENonStatio, _SysEq):
    R: Any = eqx.field(static=True, kw_only=True)
    ukeys: tuple = eqx.field(static=True, kw_only=True)
    def equation(self, t, x, u_dict, params_dict):
        # time is the argument documented first; it is tagged so that a swapped call is observable
        return self._gather(jnp.concatenate([t * 1.0, x * 2.0]), lambda u, q, p: u(q[0:1], q[1:] / 2.0, p), u_dict, params_dict)


class Sys:
    def __init__(self, kind, n_eq, n_u, B=2, k=1, tag=""):
        self.kind, self.n_eq, self.n_u, self.B, self.k = kind, n_eq, n_u, B, k
        self.dp = {"ODE": 1, "statio": 1, "nonstatio": 2}[kind]
        eqt = {"ODE": "ODE", "statio": "statio_PDE", "nonstatio": "nonstatio_PDE"}[kind]
        self.uk, self.ek = UK[:n_u], EK[:n_eq]
        self.nets = {u: Net(f"N{u}{tag}", eqt, self.dp, 1) for u in self.uk}
        cls = {"ODE": SysODE, "statio": SysStatio, "nonstatio": SysNonStatio}[kind]
        nin = self.dp + n_u * (1 + self.dp) + 1
        self.R = {e: Opaque(f"R{e}{tag}", nin, k) for e in self.ek}
        self.dyn = {e: cls(R=self.R[e], ukeys=tuple(self.uk)) for e in self.ek}
        self.fb = {u: OpaqueFn(f"fb{u}{tag}", [(self.dp,)], (1,)) for u in self.uk}
        self.fic = {u: OpaqueFn(f"fic{u}{tag}", [(1,)], (1,)) for u in self.uk}
        # concrete 0-d jax arrays, created outside any trace (weights "given as arrays")
        self.mark_arr = {nm: [jnp.asarray(base + i) for i in range(8)] for nm, base in self.MARK.items()}

    def inputs(self):
        B, dp, nu, ne = self.B, self.dp, self.n_u, self.n_eq
        return [Inp("th", (nu, 1)), Inp("a", ()), Inp("pts", (B,) if self.kind == "ODE" else (B, dp)),
                Inp("wd", (ne,)), Inp("wi", (nu,)), Inp("wo", (nu,)), Inp("wb", (nu,)),
                Inp("t0", ()), Inp("u0", (nu, 1)), Inp("oin", (nu, B, dp)), Inp("oval", (nu, B, 1)), Inp("bb", (1, dp, 2))]

    def names(self):
        return [i.name for i in self.inputs()]

    def params_dict(self, a):
        return ParamsDict(nn_params={u: self.nets[u].nn_params(a["th"][i]) for i, u in enumerate(self.uk)},
                          eq_params={"a": a["a"]})

    MARK = {"wd": 1000.0, "wi": 2000.0, "wo": 3000.0, "wb": 4000.0}

    def weights(self, a, form):
        """form: dict term -> 'scalar' | 'dict' | 'none' | 'default'.
        The loss object is constructed with concrete marker weights (as users do, outside jit); the markers found in
        the object's internal weight table are then replaced by the symbolic weights (see `symbolic_weights`)."""
        a = {nm: [self.MARK[nm] + i for i in range(8)] for nm in self.MARK}
        def w(term, arr_, keys):
            f = form.get(term, "scalar")
            if f == "none":
                return None
            if f == "scalar":
                return arr_[0]
            d = {k: arr_[i] for i, k in enumerate(keys)}
            if f == "dict_rev":         # same mapping, written in the opposite insertion order
                d = dict(reversed(list(d.items())))
            if f == "dict_arrays":      # weights given as 0-d jax arrays (the documented type is Array | Float)
                nm = {"dyn_loss": "wd", "initial_condition": "wi", "observations": "wo", "boundary_loss": "wb"}[term]
                d = {k: self.mark_arr[nm][i] for i, k in enumerate(keys)}
            if f == "dict_zero":        # an explicit null weight switches the first key's term off
                d[keys[0]] = 0.0
            return d
        kw = {}
        if form.get("dyn_loss") != "default":
            kw["dyn_loss"] = w("dyn_loss", a["wd"], self.ek)
        if form.get("initial_condition") != "default":
            kw["initial_condition"] = w("initial_condition", a["wi"], self.uk)
        if form.get("observations") != "default":
            kw["observations"] = w("observations", a["wo"], self.uk)
        if self.kind == "ODE":
            return LossWeightsODEDict(**kw)
        if form.get("boundary_loss") != "default":
            kw["boundary_loss"] = w("boundary_loss", a["wb"], self.uk)
        return LossWeightsPDEDict(**kw)

    def symbolic_weights(self, loss, a):
        table = {}
        for nm, base in self.MARK.items():
            for i in range(a[nm].shape[0]):
                table[base + i] = a[nm][i]
        def rep(leaf):
            if isinstance(leaf, float) and leaf in table:
                return table[leaf]
            if isinstance(leaf, (jax.Array, np.ndarray)) and np.shape(leaf) == () and float(leaf) in table:
                return table[float(leaf)]
            return leaf
        def keep_order(x):          # tree_map would rebuild every dictionary in sorted key order
            if isinstance(x, dict):
                return {k_: keep_order(v_) for k_, v_ in x.items()}
            if isinstance(x, (list, tuple)):
                return type(x)(keep_order(v_) for v_ in x)
            return rep(x) if x is not None else None
        new = keep_order(loss._loss_weights)
        return put_at(lambda l: l._loss_weights, loss, new)

    def build(self, a, form, ic_on, obs_on, bc_on=()):
        loss, pd, batch = self._build(a, form, ic_on, obs_on, bc_on)
        return self.symbolic_weights(loss, a), pd, batch

    def prepare(self, form, ic_on, obs_on, bc_on=()):
        """construct the loss object once, outside any trace (as users do); `build` then only substitutes the symbolic
        weights / initial states into it and assembles the batch"""
        if not hasattr(self, "_protos"):
            self._protos = {}
        ex = {i.name: np.full(tuple(i.shape), 0.5) for i in self.inputs()}
        key = (tuple(sorted(form.items())), tuple(ic_on), tuple(obs_on), tuple(bc_on))
        self._protos[key] = self._construct(ex, form, ic_on, obs_on, bc_on, None)
        # a second, unrelated system loss is built afterwards in the same process (other weights): a loss object owns its
        # configuration, whatever is constructed later
        try:
            decoy = {i.name: np.full(tuple(i.shape), 0.125) for i in self.inputs()}
            self._decoy = self._construct(decoy, {"dyn_loss": "dict", "initial_condition": "dict", "observations": "dict", "boundary_loss": "dict"}
                                          if len(self.uk) > 1 else {}, ic_on, obs_on, bc_on, None)
        except Exception:
            self._decoy = None
        return self

    def _construct(self, a, form, ic_on, obs_on, bc_on, derivative_keys_dict):
        pd = self.params_dict(a)
        u_dict = {u: self.nets[u].u for u in self.uk}
        lw = self.weights(a, form)
        if self.kind == "ODE":
            # constructed with concrete data (as users do, outside jit); the symbolic initial state is put in afterwards
            extra = dict(derivative_keys_dict=dict(derivative_keys_dict)) if derivative_keys_dict is not None else {}
            return SystemLossODE(u_dict=u_dict, dynamic_loss_dict=self.dyn, loss_weights=lw, params_dict=pd, **extra,
                                 initial_condition_dict={u: ((0.5, np.zeros((1,))) if u in ic_on else None)
                                                         for i, u in enumerate(self.uk)})
        fb, fic = self.fb, self.fic
        kw = dict(u_dict=u_dict, dynamic_loss_dict=self.dyn, loss_weights=lw, params_dict=pd)
        if derivative_keys_dict is not None:
            kw["derivative_keys_dict"] = dict(derivative_keys_dict)
        if bc_on:
            kw["omega_boundary_condition_dict"] = {u: ("dirichlet" if u in bc_on else None) for u in self.uk}
            if self.kind == "statio":
                kw["omega_boundary_fun_dict"] = {u: ((lambda x, u=u: fb[u](x)) if u in bc_on else None) for u in self.uk}
            else:
                kw["omega_boundary_fun_dict"] = {u: ((lambda t, x, u=u: fb[u](jnp.concatenate([t, x]))) if u in bc_on else None)
                                                 for u in self.uk}
        if self.kind == "nonstatio" and ic_on:
            kw["initial_condition_fun_dict"] = {u: ((lambda x, u=u: fic[u](x)) if u in ic_on else None) for u in self.uk}
        return SystemLossPDE(**kw)

    def _build(self, a, form, ic_on, obs_on, bc_on=(), derivative_keys_dict=None):
        pd = self.params_dict(a)
        key = (tuple(sorted(form.items())), tuple(ic_on), tuple(obs_on), tuple(bc_on))
        loss = getattr(self, "_protos", {}).get(key) if derivative_keys_dict is None else None
        if loss is None:
            loss = self._construct(a, form, ic_on, obs_on, bc_on, derivative_keys_dict)
        obs = {u: ({"pinn_in": a["oin"][i], "val": a["oval"][i], "eq_params": {}} if u in obs_on else None)
               for i, u in enumerate(self.uk)}
        if self.kind == "ODE":
            on = [(i, u) for i, u in enumerate(self.uk) if u in ic_on]
            if on:
                loss = put_at(lambda l: [l.u_constraints_dict[u].initial_condition for _, u in on], loss,
                                   [(a["t0"], a["u0"][i]) for i, _ in on])
            batch = ODEBatch(temporal_batch=a["pts"], obs_batch_dict=obs if obs_on else None)
        elif self.kind == "statio":
            batch = PDEStatioBatch(inside_batch=a["pts"], border_batch=a["bb"] if bc_on else None,
                                   obs_batch_dict=obs if obs_on else None)
        else:
            batch = PDENonStatioBatch(times_x_inside_batch=a["pts"], times_x_border_batch=a["bb"] if bc_on else None,
                                      obs_batch_dict=obs if obs_on else None)
        return loss, pd, batch

    def term_keys(self):
        return ["dyn_loss", "initial_condition", "observations"] if self.kind == "ODE" else \
               ["dyn_loss", "norm_loss", "boundary_loss", "observations", "initial_condition"]

    def spec(self, s, form, ic_on, obs_on, bc_on=(), swap=False):
        B, dp = self.B, self.dp
        jets = {u: self.nets[u].jet(s["th"][i]) for i, u in enumerate(self.uk)}
        def weight(term, arr_, i):
            f = form.get(term, "scalar")
            if f == "none":
                return P.ZERO
            if f == "default":
                return c(1) if self.kind != "ODE" else P.ZERO
            if f == "dict_zero" and i == 0:
                return P.ZERO
            return arr_[0] if f == "scalar" else arr_[i]
        out = {t: P.ZERO for t in self.term_keys()}
        # dynamic part
        for ei, e in enumerate(self.ek):
            per = []
            for i in range(B):
                pt = [s["pts"][i]] if self.kind == "ODE" else [s["pts"][i, l] for l in range(dp)]
                if swap and dp == 2:
                    pt = pt[::-1]
                if self.kind == "nonstatio":
                    tagged = [pt[0], pt[1] * 2]
                else:
                    tagged = pt
                args = list(tagged)
                for u in self.uk:
                    args += [jets[u](0, pt)]
                    if self.kind == "nonstatio":
                        # d/d(tagged coords): x was scaled by 2 inside the equation, u called with x = q/2
                        args += [jets[u](0, pt, (0,)), jets[u](0, pt, (1,)) * c(1) / 2]
                    else:
                        args += [jets[u](0, pt, (l,)) for l in range(dp)]
                args.append(s["a"][()])
                per.append(sum((P.app(self.R[e].name, cc, (), args) ** 2 for cc in range(self.k)), P.ZERO))
            out["dyn_loss"] = out["dyn_loss"] + weight("dyn_loss", s["wd"], ei) * mean(per)
        for ui, u in enumerate(self.uk):
            n = jets[u]
            if u in ic_on:
                if self.kind == "ODE":
                    v = (n(0, [s["t0"][()]]) - s["u0"][ui, 0]) ** 2
                    out["initial_condition"] = out["initial_condition"] + weight("initial_condition", s["wi"], ui) * v
                elif self.kind == "nonstatio":
                    v = mean([(P.app(self.fic[u].name, 0, (), [s["pts"][i, 1]]) - n(0, [c(0), s["pts"][i, 1]])) ** 2 for i in range(B)])
                    out["initial_condition"] = out["initial_condition"] + weight("initial_condition", s["wi"], ui) * v
            if u in obs_on:
                v = mean([(n(0, [s["oin"][ui, i, l] for l in range(dp)]) - s["oval"][ui, i, 0]) ** 2 for i in range(B)])
                out["observations"] = out["observations"] + weight("observations", s["wo"], ui) * v
            if u in bc_on:
                v = P.ZERO
                for f in range(2):
                    pt = [s["bb"][0, l, f] for l in range(dp)]
                    v = v + (n(0, pt) - P.app(self.fb[u].name, 0, (), pt)) ** 2
                out["boundary_loss"] = out["boundary_loss"] + weight("boundary_loss", s["wb"], ui) * v
        return out


def system_ob(kind, n_eq, n_u, form, ic_on, obs_on, bc_on=(), k=1, tag=""):
    fdesc = ",".join(f"{t}:{v}" for t, v in sorted(form.items())) or "all-scalar"
    name = (f"C13/System{'LossODE' if kind == 'ODE' else 'LossPDE'}.evaluate/ensures[{kind},eqs={n_eq},unknowns={n_u},k={k},"
            f"weights={fdesc},ic={'+'.join(ic_on) or '-'},obs={'+'.join(obs_on) or '-'},bc={'+'.join(bc_on) or '-'}]{tag}")
    def build():
        S = Sys(kind, n_eq, n_u, k=k).prepare(form, ic_on, obs_on, bc_on)
        names = S.names()
        keys = S.term_keys()
        def fn(*args):
            a = dict(zip(names, args))
            loss, pd, batch = S.build(a, form, ic_on, obs_on, bc_on)
            tot, ts = loss.evaluate(pd, batch)
            assert sorted(ts.keys()) == sorted(keys), ts.keys()
            return [tot] + [ts[t] for t in keys]
        def spec(*args, wrong=False):
            s = dict(zip(names, args))
            sp = S.spec(s, form, ic_on, obs_on, bc_on, swap=wrong and S.dp == 2)
            vals = [sp[t] for t in keys]
            if wrong and (S.dp != 2 or form.get("dyn_loss") in ("none", "default")):
                vals[0] = vals[0] * 2
                if form.get("dyn_loss") in ("none", "default"):
                    vals[keys.index("observations")] = vals[keys.index("observations")] + 1
            return [arr(lambda _: sum(vals, P.ZERO), ())] + [arr(lambda _, v=v: v, ()) for v in vals]
        return dict(fn=fn, spec=spec, canary=lambda *z: spec(*z, wrong=True), inputs=S.inputs())
    mod = "jinns.loss._LossODE:SystemLossODE" if kind == "ODE" else "jinns.loss._LossPDE:SystemLossPDE"
    return EqObligation(name, build, [mod + ".evaluate", mod + ".__post_init__", mod + ".set_loss_weights",
                                      "jinns.loss._loss_utils:constraints_system_loss_apply",
                                      "jinns.parameters._params:ParamsDict.extract_params"])


def one_one_equals_plain(kind):
    """a one-equation one-unknown system equals the plain loss on the same data"""
    from contracts.lossutil import OpODE, OpNonStatio
    def build():
        S = Sys(kind, 1, 1).prepare({}, ("u",), ("u",), ())
        names = S.names()
        R = S.R["e1"]
        class PlainODE(ODE):
            def equation(self, t, u, params):
                t1 = jnp.reshape(t, (1,))
                f = lambda q: u(q, params)
                return R(jnp.concatenate([t1, f(t1), jax.jacfwd(f)(t1).reshape(-1), jnp.reshape(params.eq_params["a"], (1,))]))
        class PlainNS(PDENonStatio):
            def equation(self, t, x, u, params):
                q0 = jnp.concatenate([t * 1.0, x * 2.0])
                f = lambda q: u(q[0:1], q[1:] / 2.0, params)
                return R(jnp.concatenate([q0, f(q0), jax.jacfwd(f)(q0).reshape(-1), jnp.reshape(params.eq_params["a"], (1,))]))
        def fn(*args):
            a = dict(zip(names, args))
            form = {}
            loss, pd, batch = S.build(a, form, ("u",), ("u",), ())
            tot, ts = loss.evaluate(pd, batch)
            net = S.nets["u"]
            params = net.params(a["th"][0], {"a": a["a"]})
            obs = {"pinn_in": a["oin"][0], "val": a["oval"][0], "eq_params": {}}
            if kind == "ODE":
                plain = LossODE(u=net.u, dynamic_loss=PlainODE(), params=params, initial_condition=(a["t0"], a["u0"][0]),
                                loss_weights=LossWeightsODE(dyn_loss=a["wd"][0], initial_condition=a["wi"][0], observations=a["wo"][0]))
                pb = ODEBatch(temporal_batch=a["pts"], obs_batch_dict=obs)
            else:
                fic = S.fic["u"]
                plain = LossPDENonStatio(u=net.u, dynamic_loss=PlainNS(), params=params, initial_condition_fun=lambda x: fic(x),
                                         loss_weights=LossWeightsPDENonStatio(dyn_loss=a["wd"][0], initial_condition=a["wi"][0],
                                                                              observations=a["wo"][0], boundary_loss=a["wb"][0]))
                pb = PDENonStatioBatch(times_x_inside_batch=a["pts"], times_x_border_batch=None, obs_batch_dict=obs)
            ptot, pts_ = plain.evaluate(params, pb)
            return [tot - ptot] + [ts[t] - pts_[t] for t in S.term_keys()]
        def spec(*args):
            return [arr(lambda _: P.ZERO, ())] * (1 + len(S.term_keys()))
        return dict(fn=fn, spec=spec, inputs=S.inputs())
    return EqObligation(f"C13/one_equation_one_unknown_equals_plain_loss[{kind}]", build,
                        ["jinns.loss._LossODE:SystemLossODE.evaluate" if kind == "ODE" else "jinns.loss._LossPDE:SystemLossPDE.evaluate"])


def per_unknown_config(kind):
    """every per-unknown entry of the system's configuration dictionaries (boundary function / condition / component
    selection, observation slice, normalisation samples and length, initial-condition function) reaches that unknown's
    constraint terms: the system's non-dynamic terms equal  sum_u w_u * (terms of the plain single-network loss built
    with u's own entries).  Two unknowns with two outputs each and *different* entries."""
    def build():
        from jinns.loss import LossPDEStatio, LossWeightsPDEStatio
        dp = {"statio": 1, "nonstatio": 2}[kind]
        eqt = {"statio": "statio_PDE", "nonstatio": "nonstatio_PDE"}[kind]
        uk = ["u", "v"]
        B, S_ = 2, 2
        nets = {u: Net(f"Q{u}", eqt, dp, 2) for u in uk}
        cls = {"statio": SysStatio, "nonstatio": SysNonStatio}[kind]
        R = Opaque("RQ", dp + 2 * (2 + 2 * dp) + 1, 1)
        dyn = {"e1": cls(R=R, ukeys=("u", "v"))}
        fb = {u: OpaqueFn(f"qb{u}", [(dp,)], (1,)) for u in uk}
        fic = {u: OpaqueFn(f"qi{u}", [(dp - 1,)], (2,)) for u in uk} if kind == "nonstatio" else None
        bdim = {"u": jnp.s_[1:2], "v": jnp.s_[0:1]}
        oslice = {"u": jnp.s_[0:1], "v": jnp.s_[1:2]}
        # per-key dictionaries mixing Python integers and non-integral floats (the integer written first)
        W = {"boundary_loss": {"u": 2, "v": 3.5}, "observations": {"u": 5, "v": 7.25},
             "initial_condition": {"u": 11.0, "v": 13.0}, "norm_loss": {"u": 17.0, "v": 19.0}}
        def bfun(u):
            return (lambda x: fb[u](x)) if kind == "statio" else (lambda t, x: fb[u](jnp.concatenate([t, x])))
        ds_ = dp if kind == "statio" else dp - 1
        NS_ = np.array([[0.3] * ds_, [0.7] * ds_])
        L_ = 1.5
        def fn(th, a_, pts_, ns, L, oin, oval, bb):
            pd = ParamsDict(nn_params={u: nets[u].nn_params(th[i]) for i, u in enumerate(uk)}, eq_params={"a": a_})
            kw = dict(u_dict={u: nets[u].u for u in uk}, dynamic_loss_dict=dyn, params_dict=pd,
                      loss_weights=LossWeightsPDEDict(dyn_loss=0.0, **W),
                      omega_boundary_fun_dict={u: bfun(u) for u in uk},
                      omega_boundary_condition_dict={u: "dirichlet" for u in uk},
                      omega_boundary_dim_dict=dict(bdim), obs_slice_dict=dict(oslice),
                      norm_samples_dict={"u": NS_, "v": None},
                      norm_int_length_dict={"u": L_, "v": None})
            if kind == "nonstatio":
                kw["initial_condition_fun_dict"] = {u: (lambda x, u=u: fic[u](x)) for u in uk}
            with jax.ensure_compile_time_eval():       # built with concrete data, as users build it (outside any trace)
                loss = SystemLossPDE(**kw)
            # the normalisation samples / length are concrete data given to the constructor: that the constructor hands each
            # unknown its own entry is part of the contract (nothing is substituted afterwards)
            obs = {u: {"pinn_in": oin[i], "val": oval[i], "eq_params": {}} for i, u in enumerate(uk)}
            if kind == "statio":
                batch = PDEStatioBatch(inside_batch=pts_, border_batch=bb, obs_batch_dict=obs)
            else:
                batch = PDENonStatioBatch(times_x_inside_batch=pts_, times_x_border_batch=bb, obs_batch_dict=obs)
            tot, ts = loss.evaluate(pd, batch)
            exp = {t: 0.0 for t in W}
            for i, u in enumerate(uk):
                params = nets[u].params(th[i], {"a": a_})
                pk = dict(u=nets[u].u, dynamic_loss=None, params=params, omega_boundary_fun=bfun(u), omega_boundary_condition="dirichlet",
                          omega_boundary_dim=bdim[u], obs_slice=oslice[u])
                if u == "u":
                    pk.update(norm_samples=NS_, norm_int_length=L_)
                if kind == "statio":
                    plain = LossPDEStatio(loss_weights=LossWeightsPDEStatio(dyn_loss=0.0, norm_loss=1.0, boundary_loss=1.0, observations=1.0), **pk)
                    pb = PDEStatioBatch(inside_batch=pts_, border_batch=bb, obs_batch_dict=obs[u])
                else:
                    plain = LossPDENonStatio(loss_weights=LossWeightsPDENonStatio(dyn_loss=0.0, norm_loss=1.0, boundary_loss=1.0,
                                                                                   observations=1.0, initial_condition=1.0),
                                             initial_condition_fun=lambda x, u=u: fic[u](x), **pk)
                    pb = PDENonStatioBatch(times_x_inside_batch=pts_, times_x_border_batch=bb, obs_batch_dict=obs[u])
                pts_terms = plain.evaluate(params, pb)[1]
                for t in W:
                    if t in pts_terms:
                        exp[t] = exp[t] + W[t][u] * pts_terms[t]
            return [ts[t] - exp[t] for t in sorted(W)]
        def spec(*args):
            return [arr(lambda _: P.ZERO, ())] * len(W)
        def canary(*args):
            return [arr(lambda _: P.ONE, ())] * len(W)
        ds = dp if kind == "statio" else dp - 1
        return dict(fn=fn, spec=spec, canary=canary,
                    inputs=[Inp("th", (2, 1)), Inp("a", ()), Inp("pts", (B, dp)), Inp("ns", (S_, ds)), Inp("L", (), "pos"),
                            Inp("oin", (2, B, dp)), Inp("oval", (2, B, 1)), Inp("bb", (1, dp, 2))])
    return EqObligation(f"C13/SystemLossPDE.__post_init__/ensures.per_unknown_entries_reach_their_unknown[{kind}]", build,
                        ["jinns.loss._LossPDE:SystemLossPDE.__post_init__", "jinns.loss._LossPDE:SystemLossPDE.evaluate",
                         "jinns.loss._loss_utils:constraints_system_loss_apply"])


def per_unknown_config_ode():
    """SystemLossODE: each unknown's observation slice and initial condition reach that unknown's terms (two unknowns with
    two outputs each, different slices, different initial states, written in non-alphabetical order)"""
    def build():
        uk = ["v", "u"]              # insertion order differs from the sorted order
        B = 2
        nets = {u: Net(f"O{u}", "ODE", 1, 2) for u in uk}
        R = Opaque("RO", 1 + 2 * (2 + 2) + 1, 1)
        dyn = {"e1": SysODE(R=R, ukeys=("v", "u"))}
        oslice = {"v": jnp.s_[1:2], "u": jnp.s_[0:1]}
        W = {"observations": {"v": 5, "u": 7.25}, "initial_condition": {"v": 11.0, "u": 13.0}}
        def fn(th, a_, pts_, t0, u0, oin, oval):
            pd = ParamsDict(nn_params={u: nets[u].nn_params(th[i]) for i, u in enumerate(uk)}, eq_params={"a": a_})
            with jax.ensure_compile_time_eval():
                loss = SystemLossODE(u_dict={u: nets[u].u for u in uk}, dynamic_loss_dict=dyn, params_dict=pd,
                                     loss_weights=LossWeightsODEDict(dyn_loss=0.0, **W), obs_slice_dict=dict(oslice),
                                     initial_condition_dict={u: (0.5, np.zeros((2,))) for u in uk})
            loss = put_at(lambda l: [l.u_constraints_dict[u].initial_condition for u in uk], loss, [(t0, u0[i]) for i in range(2)])
            obs = {u: {"pinn_in": oin[i], "val": oval[i], "eq_params": {}} for i, u in enumerate(uk)}
            tot, ts = loss.evaluate(pd, ODEBatch(temporal_batch=pts_, obs_batch_dict=obs))
            exp = {t: 0.0 for t in W}
            for i, u in enumerate(uk):
                params = nets[u].params(th[i], {"a": a_})
                plain = mk_loss(LossODE, u=nets[u].u, dynamic_loss=None, params=params, initial_condition=(t0, u0[i]), obs_slice=oslice[u],
                                loss_weights=LossWeightsODE(dyn_loss=0.0, initial_condition=1.0, observations=1.0))
                pt_ = plain.evaluate(params, ODEBatch(temporal_batch=pts_, obs_batch_dict=obs[u]))[1]
                for t in W:
                    exp[t] = exp[t] + W[t][u] * pt_[t]
            return [ts[t] - exp[t] for t in sorted(W)]
        def spec(*args):
            return [arr(lambda _: P.ZERO, ())] * len(W)
        return dict(fn=fn, spec=spec, canary=lambda *z: [arr(lambda _: P.ONE, ())] * len(W),
                    inputs=[Inp("th", (2, 1)), Inp("a", ()), Inp("pts", (B,)), Inp("t0", ()), Inp("u0", (2, 2)), Inp("oin", (2, B, 1)), Inp("oval", (2, B, 1))])
    return EqObligation("C13/SystemLossODE.__post_init__/ensures.per_unknown_entries_reach_their_unknown[ODE]", build,
                        ["jinns.loss._LossODE:SystemLossODE.__post_init__", "jinns.loss._LossODE:SystemLossODE.evaluate",
                         "jinns.loss._loss_utils:constraints_system_loss_apply"])


def mixed_system():
    """a PDE system mixing a stationary unknown (a coefficient field D(x), written first) with a non-stationary one: each
    unknown's constraint loss is of its own kind, so the non-stationary unknown keeps its initial-condition term"""
    def build():
        B = 2
        netD = Net("MD", "statio_PDE", 1, 1)
        netU = Net("MU", "nonstatio_PDE", 2, 1)
        fic = OpaqueFn("mic", [(1,)], (1,))
        class Eq(PDENonStatio):
            def equation(self, t, x, u_dict, params_dict):
                return u_dict["u"](t, x, params_dict.extract_params("u")) * u_dict["D"](x, params_dict.extract_params("D"))
        def fn(th, a_, pts_, wi, wd):
            pd = ParamsDict(nn_params={"D": netD.nn_params(th[0]), "u": netU.nn_params(th[1])}, eq_params={"a": a_})
            with jax.ensure_compile_time_eval():
                loss = SystemLossPDE(u_dict={"D": netD.u, "u": netU.u}, dynamic_loss_dict={"e1": Eq()}, params_dict=pd,
                                     loss_weights=LossWeightsPDEDict(dyn_loss=1.0, initial_condition=7.0),
                                     initial_condition_fun_dict={"D": None, "u": (lambda x: fic(x))})
            tot, ts = loss.evaluate(pd, PDENonStatioBatch(times_x_inside_batch=pts_, times_x_border_batch=None))
            return [ts["initial_condition"], ts["dyn_loss"]]
        def spec(th, a_, pts_, wi, wd, wrong=False):
            nD, nU = netD.jet(th[0]), netU.jet(th[1])
            ic = mean([(P.app("mic", 0, (), [pts_[i, 1]]) - nU(0, [c(0), pts_[i, 1]])) ** 2 for i in range(B)]) * c(7 if not wrong else 1)
            dy = mean([(nU(0, [pts_[i, 0], pts_[i, 1]]) * nD(0, [pts_[i, 1]])) ** 2 for i in range(B)])
            return [arr(lambda _: ic, ()), arr(lambda _: dy, ())]
        return dict(fn=fn, spec=spec, canary=lambda *z: spec(*z, wrong=True),
                    inputs=[Inp("th", (2, 1)), Inp("a", ()), Inp("pts", (B, 2)), Inp("wi", ()), Inp("wd", ())])
    return EqObligation("C13/SystemLossPDE.__post_init__/ensures.each_unknown_gets_a_constraint_loss_of_its_own_kind[stationary_unknown_first]", build,
                        ["jinns.loss._LossPDE:SystemLossPDE.__post_init__", "jinns.loss._LossPDE:SystemLossPDE.evaluate"])


def obligations(tier):
    obs = [per_unknown_config("statio"), per_unknown_config("nonstatio"), per_unknown_config_ode(), mixed_system()]
    for kind in ("ODE", "statio", "nonstatio"):
        allu = lambda n: tuple(UK[:n])
        # shapes of the system: equations and unknowns vary independently
        for n_eq in (1, 2, 3):
            for n_u in (1, 2):
                obs.append(system_ob(kind, n_eq, n_u, {}, allu(n_u) if kind != "statio" else (), (UK[0],),
                                     bc_on=(UK[n_u - 1],) if kind != "ODE" else ()))
        # weight specifications
        obs.append(system_ob(kind, 2, 2, {"dyn_loss": "dict", "initial_condition": "dict", "observations": "dict",
                                          "boundary_loss": "dict"}, allu(2) if kind != "statio" else (), allu(2),
                             bc_on=allu(2) if kind != "ODE" else ()))
        obs.append(system_ob(kind, 2, 2, {"dyn_loss": "dict"}, allu(2) if kind != "statio" else (), ("u",)))
        obs.append(system_ob(kind, 3, 2, {"dyn_loss": "dict_rev", "observations": "dict_rev", "initial_condition": "dict_rev",
                                          "boundary_loss": "dict_rev"}, allu(2) if kind != "statio" else (), allu(2),
                             bc_on=allu(2) if kind != "ODE" else ()))
        obs.append(system_ob(kind, 2, 2, {"observations": "none"}, allu(2) if kind != "statio" else (), ("v",)))
        obs.append(system_ob(kind, 2, 2, {"dyn_loss": "dict_arrays", "initial_condition": "dict_arrays", "observations": "dict_arrays",
                                          "boundary_loss": "dict_arrays"}, allu(2) if kind != "statio" else (), allu(2),
                             bc_on=allu(2) if kind != "ODE" else ()))
        obs.append(system_ob(kind, 2, 2, {"dyn_loss": "dict_zero", "initial_condition": "dict_zero", "observations": "dict_zero",
                                          "boundary_loss": "dict_zero"}, allu(2) if kind != "statio" else (), allu(2),
                             bc_on=allu(2) if kind != "ODE" else ()))
        obs.append(system_ob(kind, 2, 2, {"dyn_loss": "none"}, ("u",) if kind != "statio" else (), ("u",)))
        obs.append(system_ob(kind, 3, 2, {"dyn_loss": "none"}, ("u",) if kind != "statio" else (), ("u",)))
        obs.append(system_ob(kind, 2, 2, {"dyn_loss": "default", "initial_condition": "default", "observations": "default",
                                          "boundary_loss": "default"}, ("v",) if kind != "statio" else (), ("u",)))
        obs.append(system_ob(kind, 2, 1, {}, (), (), k=2))
        if kind != "statio":
            # a batch without observations: initial conditions given for some unknowns only / for all of them
            obs.append(system_ob(kind, 2, 2, {}, ("v",), ()))
            obs.append(system_ob(kind, 2, 2, {"initial_condition": "dict"}, ("u",), ()))
            obs.append(system_ob(kind, 2, 2, {}, allu(2), ()))
    obs.append(one_one_equals_plain("ODE"))
    obs.append(one_one_equals_plain("nonstatio"))
    # systems of separable networks: the per-equation term is the weighted grid mean (C11 contract of the forward-mode
    # branch of dynamic_loss_apply, which system losses call per equation; reported under C13)
    from contracts import c11
    for o in (c11.dynapply_ob(1, 2), c11.dynapply_axes_ob(2, 2, 2)):
        o.name = o.name.replace("C11/", "C13/per_equation_term/")
        obs.append(o)
    return obs


def system_param_batch_ob(kind, n_eq, n_u):
    """C12 for system losses: the batch carries 'a' per sample; row i of the dynamic part uses a_i"""
    def build():
        S = Sys(kind, n_eq, n_u)
        names = S.names() + ["acol"]
        keys = S.term_keys()
        ic_on = tuple(S.uk) if kind != "statio" else ()
        def fn(*args):
            a = dict(zip(names, args))
            loss, pd, batch = S.build(a, {}, ic_on, (), ())
            batch = put_at(lambda b: b.param_batch_dict, batch, {"a": a["acol"]})
            tot, ts = loss.evaluate(pd, batch)
            return [tot] + [ts[t] for t in keys]
        def spec(*args, wrong=False):
            s = dict(zip(names, args))
            rows = [s["acol"][i, 0] for i in range(S.B)]
            if wrong:
                rows = rows[::-1]
            tot = {t: P.ZERO for t in keys}
            # row i of the dynamic part sees a_i: evaluate the one-row specification per row and average
            for i in range(S.B):
                si = dict(s)
                si["a"] = arr(lambda _: rows[i], ())
                si["pts"] = s["pts"][i:i + 1]
                S1 = S
                oldB = S1.B
                S1.B = 1
                try:
                    sp = S1.spec(si, {}, (), (), ())
                finally:
                    S1.B = oldB
                tot["dyn_loss"] = tot["dyn_loss"] + sp["dyn_loss"] * c(1) / S.B
            rest = S.spec(s, {"dyn_loss": "none"}, ic_on, (), ())
            for t in keys:
                if t != "dyn_loss":
                    tot[t] = rest[t]
            vals = [tot[t] for t in keys]
            return [arr(lambda _: sum(vals, P.ZERO), ())] + [arr(lambda _, v=v: v, ()) for v in vals]
        return dict(fn=fn, spec=spec, canary=lambda *z: spec(*z, wrong=True), inputs=S.inputs() + [Inp("acol", (S.B, 1))])
    mod = "jinns.loss._LossODE:SystemLossODE" if kind == "ODE" else "jinns.loss._LossPDE:SystemLossPDE"
    return EqObligation(f"C12/{mod.split(':')[1]}.evaluate/ensures.param_batch[{kind},eqs={n_eq},unknowns={n_u}]", build,
                        [mod + ".evaluate", "jinns.parameters._params:_update_eq_params_dict",
                         "jinns.parameters._params:_get_vmap_in_axes_params"])


def c12_system_obligations(tier):
    obs = []
    for kind in ("ODE", "statio", "nonstatio"):
        obs.append(system_param_batch_ob(kind, 1, 1))
        obs.append(system_param_batch_ob(kind, 2, 2))
    return obs
